//! sim_miri — secondary C16 engine: the same kind of scenario, compiled against the real
//! std::sync primitives (guard off) and executed by Miri, which is itself a deterministic
//! simulator: one `-Zmiri-seed` is one exactly repeatable thread schedule (with seeded
//! pre-emption), the Relaxed orderings the code really uses are emulated, and data races or
//! undefined behaviour in the `unsafe` lifetime extension are reported.
//!
//! usage (through cargo miri): sim_miri <scenario-seed> [count]
//! The scenario is generated from argv (never from the environment); Miri's own seed decides
//! the schedule. A violation panics with a line starting "C16-VIOLATION".

use sourcemap::SourceView;
use std::sync::{Arc, Barrier};

fn splitmix(x: &mut u64) -> u64 {
    *x = x.wrapping_add(0x9E37_79B9_7F4A_7C15);
    let mut z = *x;
    z = (z ^ (z >> 30)).wrapping_mul(0xBF58_476D_1CE4_E5B9);
    z = (z ^ (z >> 27)).wrapping_mul(0x94D0_49BB_1331_11EB);
    z ^ (z >> 31)
}

fn below(s: &mut u64, n: u64) -> u64 {
    ((splitmix(s) as u128 * n as u128) >> 64) as u64
}

#[derive(Clone, Debug)]
enum Call {
    GetLine(u32),
    LineCount,
    Lines,
    /// get_line_slice(line, col, span)
    Slice(u32, u32, u32),
    /// clone the shared view, ask the clone
    CloneGetLine(u32),
}

#[derive(Debug, PartialEq)]
enum Res {
    Line(Option<String>),
    Count(usize),
    Lines(Vec<String>),
}

/// characters whose UTF-16 units intersect [col, col+span); None if the line is shorter
fn ref_slice(line: &str, col: u32, span: u32) -> Option<String> {
    let (lo, hi) = (col as u64, col as u64 + span as u64);
    let mut unit = 0u64;
    let mut out = String::new();
    for ch in line.chars() {
        let w = ch.len_utf16() as u64;
        if lo < hi && unit < hi && unit + w > lo {
            out.push(ch);
        }
        unit += w;
    }
    if unit < hi {
        None
    } else {
        Some(out)
    }
}

/// Reference: split at \r\n, \n, lone \r; trailing terminator yields a final empty line.
fn ref_lines(text: &str) -> Vec<String> {
    let b = text.as_bytes();
    let mut out = Vec::new();
    let (mut start, mut i) = (0usize, 0usize);
    while i < b.len() {
        if b[i] == b'\n' {
            out.push(text[start..i].to_string());
            i += 1;
            start = i;
        } else if b[i] == b'\r' {
            out.push(text[start..i].to_string());
            i += if i + 1 < b.len() && b[i + 1] == b'\n' { 2 } else { 1 };
            start = i;
        } else {
            i += 1;
        }
    }
    out.push(text[start..].to_string());
    out
}

fn answer(lines: &[String], c: &Call) -> Res {
    match c {
        Call::GetLine(i) => Res::Line(lines.get(*i as usize).cloned()),
        Call::LineCount => Res::Count(lines.len()),
        Call::Lines => Res::Lines(lines.to_vec()),
        Call::Slice(l, c, n) => Res::Line(lines.get(*l as usize).and_then(|t| ref_slice(t, *c, *n))),
        Call::CloneGetLine(i) => Res::Line(lines.get(*i as usize).cloned()),
    }
}

fn apply(v: &SourceView, c: &Call) -> Res {
    match c {
        Call::GetLine(i) => Res::Line(v.get_line(*i).map(str::to_owned)),
        Call::LineCount => Res::Count(v.line_count()),
        Call::Lines => Res::Lines(v.lines().map(str::to_owned).collect()),
        Call::Slice(l, c, n) => Res::Line(v.get_line_slice(*l, *c, *n).map(str::to_owned)),
        Call::CloneGetLine(i) => {
            let c = v.clone();
            let r = c.get_line(*i).map(str::to_owned);
            Res::Line(r)
        }
    }
}

struct Scenario {
    text: String,
    /// calls by the main thread before the clients start (partly indexed view)
    pre: Vec<Call>,
    threads: Vec<Vec<Call>>,
    /// calls by the main thread while the clients run
    main_during: Vec<Call>,
    /// threads 1.. start only after thread 0 is done, without synchronising with it
    late_readers: bool,
}

fn gen_call(s: &mut u64, n: u64) -> Call {
    match below(s, 12) {
        0..=5 => Call::GetLine(below(s, n + 2) as u32),
        6..=7 => Call::LineCount,
        8 => Call::Lines,
        9 => Call::Slice(below(s, n + 1) as u32, below(s, 3) as u32, below(s, 3) as u32),
        _ => Call::CloneGetLine(below(s, n + 1) as u32),
    }
}

fn scenario(seed: u64) -> Scenario {
    let mut s = seed ^ 0xC16;
    let pieces = ["", "a", "bb", "é"];
    let terms = ["\n", "\r\n", "\r"];
    // one scenario in eight has a long text (65..90 lines): beyond any plausible indexing batch
    let nterm = if seed % 8 == 5 { 64 + below(&mut s, 26) as usize } else { below(&mut s, 4) as usize };
    let mut text = String::new();
    for i in 0..=nterm {
        text.push_str(pieces[below(&mut s, 4) as usize]);
        if i < nterm {
            text.push_str(terms[below(&mut s, 3) as usize]);
        }
    }
    let n = ref_lines(&text).len() as u64;
    let nthreads = 2 + below(&mut s, 3) as usize;
    let mut threads: Vec<Vec<Call>> = Vec::new();
    for _ in 0..nthreads {
        let k = 1 + below(&mut s, 3) as usize;
        threads.push((0..k).map(|_| gen_call(&mut s, n)).collect());
    }
    // one scenario in three has the shape "one thread finishes the index, the others come late and
    // ask right away": what a fast path that reads shared counters without the lock must survive
    // (a late reader has not synchronised with the finisher; under weak memory it may see the
    // counters in any coherent combination)
    if seed % 3 == 0 {
        threads[0] = vec![match below(&mut s, 3) {
            0 => Call::LineCount,
            1 => Call::GetLine(n as u32),
            _ => Call::Lines,
        }];
        for t in threads.iter_mut().skip(1) {
            let first = match below(&mut s, 4) {
                0 | 1 => Call::LineCount,
                2 => Call::GetLine(below(&mut s, n + 1) as u32),
                _ => Call::Lines,
            };
            t.insert(0, first);
        }
    }
    let pre: Vec<Call> = if seed % 3 == 0 { Vec::new() } else { (0..below(&mut s, 3)).map(|_| gen_call(&mut s, n)).collect() };
    let main_during = (0..below(&mut s, 2)).map(|_| gen_call(&mut s, n)).collect();
    Scenario { text, pre, threads, main_during, late_readers: seed % 3 == 0 }
}

fn run(seed: u64) {
    let Scenario { text, pre, threads, main_during, late_readers } = scenario(seed);
    let lines = ref_lines(&text);
    let view = Arc::new(SourceView::new(text.as_str().into()));
    for c in &pre {
        let r = apply(&view, c);
        if r != answer(&lines, c) {
            panic!("C16-VIOLATION scenario={seed} text={text:?} pre-phase call={c:?} returned {r:?}");
        }
    }
    let barrier = Arc::new(Barrier::new(threads.len() + 1));
    let mut handles = Vec::new();
    // "late readers": thread 0 raises a Relaxed flag when it is done and the others wait for it
    // without synchronising with it (a Relaxed load gives no happens-before), which is what a
    // caller that simply arrives later in real time looks like to the memory model
    let go = Arc::new(std::sync::atomic::AtomicBool::new(!late_readers));
    for (t, calls) in threads.clone().into_iter().enumerate() {
        let view = view.clone();
        let barrier = barrier.clone();
        let go = go.clone();
        handles.push(std::thread::spawn(move || {
            barrier.wait();
            if t > 0 {
                while !go.load(std::sync::atomic::Ordering::Relaxed) {
                    std::thread::yield_now();
                }
            }
            let r = calls.iter().map(|c| apply(&view, c)).collect::<Vec<Res>>();
            if t == 0 {
                go.store(true, std::sync::atomic::Ordering::Relaxed);
            }
            r
        }));
    }
    barrier.wait();
    for c in &main_during {
        let r = apply(&view, c);
        let want = answer(&lines, c);
        if r != want {
            panic!("C16-VIOLATION scenario={seed} text={text:?} main thread call={c:?} returned {r:?}, a fresh single-threaded view returns {want:?}");
        }
    }
    for (t, h) in handles.into_iter().enumerate() {
        match h.join() {
            Ok(results) => {
                for (c, r) in threads[t].iter().zip(results.iter()) {
                    let want = answer(&lines, c);
                    if *r != want {
                        panic!("C16-VIOLATION scenario={seed} text={text:?} thread={t} call={c:?} returned {r:?}, a fresh single-threaded view returns {want:?}");
                    }
                }
            }
            Err(_) => panic!("C16-VIOLATION scenario={seed} text={text:?} thread={t} panicked inside the library"),
        }
    }
    // later callers: the view must still be usable and right
    for i in 0..=lines.len() as u32 {
        let r = apply(&view, &Call::GetLine(i));
        if r != answer(&lines, &Call::GetLine(i)) {
            panic!("C16-VIOLATION scenario={seed} text={text:?} post-phase get_line({i}) returned {r:?}");
        }
    }
    if view.line_count() != lines.len() {
        panic!("C16-VIOLATION scenario={seed} text={text:?} post-phase line_count wrong");
    }
}

fn main() {
    let args: Vec<String> = std::env::args().collect();
    let first: u64 = args.get(1).and_then(|s| s.parse().ok()).unwrap_or(0);
    let count: u64 = args.get(2).and_then(|s| s.parse().ok()).unwrap_or(1);
    for k in 0..count {
        run(first + k);
    }
    println!("sim_miri ok scenarios={first}..{}", first + count);
}
