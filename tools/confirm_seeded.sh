#!/bin/bash
# confirm_seeded.sh <worktree> <patch.diff>: reset the worktree's src to HEAD, apply the patch;
# with the change the existing suite passes and the demo fails; without it the demo passes.
# Uses `git apply`/`git apply -R` only (git stash is shared between worktrees).
set -u
WT=$1; P=$2
cd "$WT" || exit 2
export CARGO_NET_OFFLINE=true
git checkout -q -- src && git apply "$P" || { echo "CANNOT APPLY"; exit 2; }
echo "== with change: existing suite (all targets except seeded_demo)"
cargo test --offline --no-fail-fast 2>&1 | grep -E "^test result|^     Running|FAILED|panicked" | grep -v "^test result: ok" | grep -B1 -A3 -E "FAILED|panicked" | head -30
echo "== with change: demo"
cargo test --offline --test seeded_demo 2>&1 | grep -E "^test result|^test .* (ok|FAILED|ignored)" | head -20
git apply -R "$P"
echo "== without change: demo"
cargo test --offline --test seeded_demo 2>&1 | grep -E "^test result|^test .* (ok|FAILED|ignored)" | head -20
git apply "$P"
git status --short | head
