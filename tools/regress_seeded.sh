#!/bin/bash
# Re-run every seeded change against the check of the property it breaks (quick tier):
# property-breaking changes must be reported (exit 1), behaviour-preserving ones must stay quiet.
# usage: tools/regress_seeded.sh [id ...]     (default: all under /verif/seeded)
cd /verif
git -C /repo status --short | grep -q . && { echo "/repo not clean"; exit 2; }
ids=${@:-$(ls seeded)}
fail=0
for id in $ids; do
  d=seeded/$id
  [ -f $d/patch.diff ] || continue
  if [[ $id == q* ]]; then
      props=$(python3 -c "import json;print(json.load(open('$d/meta.json'))['property_in_focus'].split()[0])"); want=0
  else
      props=$(python3 -c "import json;print(json.load(open('$d/meta.json'))['breaks_property'])"); want=1
  fi
  git -C /repo apply /verif/$d/patch.diff || { echo "$id: patch does not apply"; fail=1; continue; }
  t0=$(date +%s)
  timeout 1500 ./check $props quick > /tmp/regress.$$.log 2>&1; rc=$?
  t1=$(date +%s)
  git -C /repo checkout -- .
  sig=$(grep -m1 -E "^violation|^miri:" /tmp/regress.$$.log | cut -c1-110)
  if [ $rc -eq $want ]; then echo "ok   $id $props rc=$rc ${t1}-${t0}=$((t1-t0))s $sig"; else echo "FAIL $id $props rc=$rc (want $want) $sig"; fail=1; fi
done
rm -f /tmp/regress.$$.log
# leave the evidence files as a clean-tree run writes them
for p in C05 C12 C15 C16; do ./check $p quick > /dev/null 2>&1; done
exit $fail
