#!/bin/bash
# Secondary C16 engine (thorough tier): the scenarios of /verif/simmiri under Miri, real std::sync.
#   miri_c16.sh run <first-scenario> <count> <seeds>      -> exit 0 clean / 1 violation (replay written) / 2 harness error
#   miri_c16.sh replay <file>
# One Miri seed = one exactly repeatable schedule. The scenario comes from argv, never from the environment.
set -u
VERIF=${VERIF_DIR:-/verif}
cd "$VERIF/simmiri" || exit 2
export CARGO_NET_OFFLINE=true
mode=$1; shift
case "$mode" in
  run)
    first=$1; count=$2; seeds=$3
    log="$VERIF/simmiri/miri.log"
    t0=$(date +%s)
    MIRIFLAGS="-Zmiri-many-seeds=0..$seeds -Zmiri-preemption-rate=0.5" cargo +nightly miri run --offline -q -- "$first" "$count" > "$log" 2>&1
    rc=$?
    t1=$(date +%s)
    ok=$(grep -c "^sim_miri ok" "$log")
    # An aliasing-model complaint alone (Stacked Borrows) is not a statement about the property:
    # ask Tree Borrows for a second opinion; data races, dangling accesses and C16-VIOLATION lines
    # count directly.
    if ! grep -q "C16-VIOLATION\|Data race\|data race\|dangling\|use-after-free\|has been freed" "$log" && grep -q "Undefined Behavior" "$log"; then
        MIRIFLAGS="-Zmiri-many-seeds=0..$seeds -Zmiri-preemption-rate=0.5 -Zmiri-tree-borrows" cargo +nightly miri run --offline -q -- "$first" "$count" > "$log.tb" 2>&1
        if ! grep -q "Undefined Behavior\|C16-VIOLATION" "$log.tb"; then
            echo "note: Miri reported undefined behaviour under Stacked Borrows only (clean under Tree Borrows); not counted as a C16 violation: $(grep -m1 'Undefined Behavior' "$log" | cut -c1-200)"
            ok=$(grep -c "^sim_miri ok" "$log.tb")
            t1=$(date +%s)
            echo "MIRI-STATS executions_ok=$ok wall_s=$((t1-t0)) seeds=$seeds scenarios=$count violation=0"
            exit 0
        fi
    fi
    if grep -q "C16-VIOLATION\|Undefined Behavior\|data race" "$log"; then
        seed=$(grep -m1 "FAILING SEED:" "$log" | sed 's/.*FAILING SEED: *//')
        what=$(grep -m1 "C16-VIOLATION\|Undefined Behavior\|Data race" "$log" | cut -c1-400)
        mkdir -p "$VERIF/replays"
        f="$VERIF/replays/C16-miri-$first-$count-seed${seed:-unknown}.json"
        python3 - "$f" "$first" "$count" "${seed:-0}" "$what" <<'PY'
import json,sys
f,first,count,seed,what=sys.argv[1:6]
json.dump({"property":"C16","engine":"miri","scenario_first":int(first),"scenario_count":int(count),"miri_seed":int(seed),
           "miri_flags":"-Zmiri-preemption-rate=0.5","detail":what,
           "replay":"cd /verif/simmiri && MIRIFLAGS='-Zmiri-seed=%s -Zmiri-preemption-rate=0.5' cargo +nightly miri run --offline -- %s %s"%(seed,first,count)},open(f,"w"),indent=1)
PY
        echo "miri: $what"
        echo "VIOLATION property=C16 replay=$f"
        echo "MIRI-STATS executions_ok=$ok wall_s=$((t1-t0)) seeds=$seeds scenarios=$count violation=1"
        exit 1
    fi
    if [ $rc -ne 0 ] || [ "$ok" -eq 0 ]; then
        tail -20 "$log"
        echo "HARNESS-ERROR: miri engine failed without a violation report (rc=$rc, see simmiri/miri.log)"
        exit 2
    fi
    echo "MIRI-STATS executions_ok=$ok wall_s=$((t1-t0)) seeds=$seeds scenarios=$count violation=0"
    exit 0
    ;;
  replay)
    f=$1
    [ -f "$f" ] || { echo "HARNESS-ERROR: no such replay file: $f"; exit 2; }
    read -r first count seed <<<"$(python3 -c "import json,sys; d=json.load(open(sys.argv[1])); print(d['scenario_first'],d['scenario_count'],d['miri_seed'])" "$f")"
    MIRIFLAGS="-Zmiri-seed=$seed -Zmiri-preemption-rate=0.5" cargo +nightly miri run --offline -q -- "$first" "$count" > "$VERIF/simmiri/miri-replay.log" 2>&1
    if grep -q "C16-VIOLATION\|Undefined Behavior\|Data race" "$VERIF/simmiri/miri-replay.log"; then
        grep -m3 "C16-VIOLATION\|Undefined Behavior\|Data race\|panicked" "$VERIF/simmiri/miri-replay.log" | cut -c1-400
        echo "VIOLATION property=C16 replay=$f"
        exit 1
    fi
    echo "replay of $f: property held under Miri seed $seed; the tree no longer fails this trace"
    exit 0
    ;;
esac
exit 2
