#!/bin/bash
# try_seeded.sh <patch.diff> <prop> [<prop>...] : apply to /repo, run quick checks, revert.
set -u
P=$1; shift
git -C /repo status --short | grep -q . && { echo "/repo not clean"; exit 2; }
git -C /repo apply "$P" || { echo "patch does not apply"; exit 2; }
for prop in "$@"; do
  echo "=== $prop"
  /verif/check "$prop" quick > /tmp/try_seeded.$$.log 2>&1
  rc=$?
  grep -E "^violation|^VIOLATION|^KNOWN|^HARNESS|^runs=|^sim_io" /tmp/try_seeded.$$.log | cut -c1-420 | head -12
  echo "rc=$rc"
done
rm -f /tmp/try_seeded.$$.log
git -C /repo checkout -- .
git -C /repo status --short
