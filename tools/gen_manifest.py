#!/usr/bin/env python3
"""Regenerates /verif/MANIFEST.json (kept in one place so it stays valid and current)."""
import json, subprocess, os
V = "/verif"
na = {
 "C01":"pure function of the map (to_writer then decode_slice is a deterministic composition); no schedule, clock, fault or shared state in the statement — DESIGN.md §5",
 "C02":"pure function of the document text; deciding it needs an independent reference decoder over generated inputs, not an environment to simulate — DESIGN.md §5",
 "C03":"pure function of the map; the oracle would be an independent v3 validator over generated maps, no nondeterminism or fault involved — DESIGN.md §5",
 "C04":"data-structure invariant of single-owner by-value/&mut operations; no interior mutability on the lookup path, nothing to schedule or fault — DESIGN.md §5",
 "C06":"the 'single fault' is a grammar-level edit of the mappings text; 'malformed => Err' needs a reference grammar, not a simulator. Byte damage to stored mappings is exercised under C05 for crash-freedom only — DESIGN.md §5",
 "C07":"pure function of (map, query); no seam, schedule or fault — DESIGN.md §5",
 "C08":"pure function of (index map, query) — DESIGN.md §5",
 "C09":"pure function of (map, options) — DESIGN.md §5",
 "C10":"pure function of two maps — DESIGN.md §5",
 "C11":"pure integer arithmetic; its natural tiers are exhaustive enumeration or proof, which are other technique families — DESIGN.md §5",
 "C13":"single-owner &mut builders/setters with deterministic interning; save/load is a pure function pair; call sequences against an interning model are stateful property testing, not simulation — DESIGN.md §5",
 "C14":"pure function of the Hermes document — DESIGN.md §5",
 "C17":"pure function of (text, map, position, name) — DESIGN.md §5",
 "C18":"pure text scan; the reader goes straight into std's BufReader::lines with no state machine of the crate's own between reads, and the data-URL pairing has no seam — DESIGN.md §5",
 "C19":"pure string function — DESIGN.md §5",
 "C20":"slice-based parser, pure function of the bytes; the path-based constructors use fs::read directly with no injectable seam and are outside the statement — DESIGN.md §5",
}
checks = {
 "C16": dict(
   engine="sim_sched",
   technique="deterministic simulation: seeded thread schedules (own shuttle Scheduler) of clients sharing one SourceView, per-call check against a sequential reference model; replayable minimised schedule",
   level=("exploration","Seeded search over thread interleavings of 2..4 client tasks (plus the main task) sharing one real SourceView whose Mutex/AtomicUsize are shuttle's, every scheduling decision taken by the harness's scheduler from VERIF_SEED; each call's result is compared with RefView (the text is immutable, so linearizability degenerates to per-call equality), panics, deadlocks and the step bound are violations, and a post-phase on the same view checks it is still usable. Sampled, not exhaustive: quick 1e6 schedules, thorough 5e7, a second stage with the library unoptimised and debug assertions on (5e5 / 5e6 schedules in a run domain of its own), plus Miri seeds.","§4.1"),
   note="Trusts shuttle's runtime (coroutine switching, SeqCst model of atomics) and the RefView model written from the property statement. Scheduling points are the Mutex/atomic operations of the hooked module only.",
 ),
 "C15": dict(
   engine="sim_io",
   technique="deterministic simulation, single-client (fault-free) configuration: seeded call histories on the lazily indexed SourceView checked call by call against the RefView reference model",
   level=("exploration","Seeded histories (1..13 operations incl. clone/switch/fresh views, out-of-range and huge arguments) over generated texts with every terminator style and astral characters, executed on the shipped SourceView (guard off, overflow checks on) and compared operation by operation with RefView; probes for every slice boundary class must be non-zero. A second stage repeats the search with the library unoptimised and debug assertions on, in a run domain of its own. This is the sequential, fault-free configuration of the C16 simulator; there is no schedule or fault in it (DESIGN.md §4.2 says so plainly).","§4.2"),
   note="Trusts RefView as the literal reading of the statement (split at \\r\\n, \\n, lone \\r; slices = characters whose UTF-16 units intersect [c,c+n), None if the line is shorter than c+n).",
 ),
}
checks["C12"] = dict(
   engine="sim_io",
   technique="deterministic simulation with fault injection over the Read seam: seeded chunking/EINTR/error/drop/dup/swap/flip/early-EOF schedules through SimReader, reader path vs slice path on the delivered bytes plus an XSSI header reference model",
   level=("exploration","Every run delivers a stored document (fixtures, synthetic regular/index/Hermes maps from an independent emitter, non-maps, invalid, optionally damaged at rest) with a generated junk header through a seeded transport and reader (1-byte reads, splits inside the header, inside \\r\\n, exactly at the header end, around BufReader's 8192, EINTR, one hard error, dropped/duplicated/swapped chunks, bit flips, early EOF) into a reader entry point; the outcome must equal the slice entry point on the delivered bytes (both Err, or equal observational dumps), is_sourcemap must equal is_sourcemap_slice, decode_data_url(base64(D')) must equal decode_slice(D'), and for clean headers both must match a small header model (LF/CRLF skipped, bare CR rejected). A systematic single- and double-split sweep over small documents is the floor under the seeded search; boundary-cell probes must all be non-zero. A second stage repeats the search with the library unoptimised and debug assertions on, in a run domain of its own.","§4.3"),
   note="Trusts the observational dump (public accessors only), the harness's header model and base64 encoder. Error kinds are not compared. Interrupted is treated as transparent per the Read contract.",
 )
checks["C05"] = dict(
   engine="sim_io",
   technique="deterministic simulation with fault injection: seeded at-rest damage (bit flips, torn/zeroed/garbage/duplicated/moved sectors, stale tails, digit substitutions) plus transport faults through SimReader into every decoding/detection entry point, post-decode workload under panic/allocation/hang monitors in child processes",
   level=("fault_enumeration","For documents that were well-formed when written (fixtures, synthetic regular/index/Hermes maps, scripts with sourceMappingURL references) and then damaged at rest by 0..3 seeded faults and/or in flight (chunking, EINTR, one hard error, drop/dup/swap/flip, early EOF), every decoding and detection entry point (slice, reader, data URL, reference discovery) must return without panic, arithmetic overflow (overflow-checks on), allocation out of proportion (counting allocator: 4 MiB + 256 x input, attributed to the library call in flight when the limit is crossed; amplification documents pair one long string with thousands of references) or endless reader polling (deterministic read budget; wall-clock backstop per run confirmed by a solitary re-run), and every map that comes back must survive the seeded post-decode workload (all accessors, lookups, formatters, function-name resolution, rewrite under the in-memory options, flatten, serialisation below the 100000-line bound, and the serialised form must decode again). Runs execute in child processes, each case on a 2 MiB thread, so that aborts and stack overflows are attributed to the announced run. A second stage repeats the search in another build configuration (library at opt-level 0, debug assertions on) with its own run domain and a larger share of large documents. A third stage is a watchdog for time in proportion to the input: CPU time of every call on thirteen document shapes at size n and 4n (reported above 0.5 s and 12x). Claimed for the fault-reachable part of the statement only; adversarially constructed inputs are a fuzzing target, not a fault model (DESIGN.md §4.4).","§4.4"),
   note="Trusts the monitors (panic hook + catch_unwind, counting GlobalAlloc, SimReader budgets) and the parent/child attribution protocol. Says nothing about what a damaged document decodes to.",
 )
order = ["C05","C12","C15","C16"]
m = {
 "version":1,
 "setup_cmd":"cd /verif && ./check setup",
 "hooks":{
   "guard":"cfg(sourcemap_verif)",
   "enable":"RUSTFLAGS='--cfg sourcemap_verif' via /verif/simsched/.cargo/config.toml, building /repo/src through the shadow manifest /verif/simsched/shadow/Cargo.toml (adds the shuttle dependency); only the C16 shuttle engine uses it, the other checks build /repo as shipped",
   "baseline_off_cmd":"cd /repo && cargo test --workspace --no-fail-fast --offline",
   "source_commits":["36802d9"],
   "add_only":True},
 "engines":[
   {"name":"sim_sched","path":"/verif/simsched","serves_properties":["C16"],"kind_free_text":"shuttle 0.9.3 runtime driven by the harness's own seeded Scheduler (uniform / sticky / PCT-like / replay), RefView oracle, workload+schedule minimiser"},
   {"name":"sim_io","path":"/verif/sim","serves_properties":["C05","C12","C15"],"kind_free_text":"seeded simulator over the Read seam and stored bytes (SimDisk/SimTransport/SimReader) and single-client SourceView histories; built twice (release, and profile devsim: library at opt-level 0 with debug assertions); for C05 also a CPU-time watchdog over document shapes at n and 4n"},
   {"name":"sim_miri","path":"/verif/simmiri","serves_properties":["C16"],"kind_free_text":"the same client scenarios on real std::sync under Miri (seeded schedules, weak-memory emulation, data-race and UB detection), with late readers that do not synchronise with the indexing thread"},
 ],
 "checks":[],
 "notes":"Deterministic simulation with fault injection. One integer (VERIF_SEED, default 20261001) decides every run; exit 0 held / 1 VIOLATION / 2 harness error. Repairs of genuine defects (nine fix: commits in /repo) and the genuine defects that were recorded instead of repaired (F11..F14, each with an explained signature and a replay file under /verif/findings) are listed in KNOWN_FINDINGS.txt; DESIGN.md sections 10-12 describe what was built, what was found and which seeded changes each check catches.",
 "not_applicable":[{"property_id":k,"reason":v} for k,v in na.items()],
}
for pid in order:
    if pid not in checks: continue
    c = checks[pid]
    m["checks"].append({
      "property_id":pid,
      "quick_cmd":f"cd /verif && ./check {pid} quick",
      "thorough_cmd":f"cd /verif && ./check {pid} thorough",
      "evidence_file":f"/verif/evidence/{pid}.json",
      "replay_cmd_template":f"cd /verif && ./check {pid} --replay {{path}}",
      "engine":c["engine"],
      "level_claimed":{"category":c["level"][0],"text":c["level"][1],"design_ref":c["level"][2]},
      "level_note":c["note"],
      "technique":c["technique"],
    })
claimed = {c["property_id"] for c in m["checks"]}
pending = [p for p in order if p not in claimed]
for p in pending:
    m["not_applicable"].append({"property_id":p,"reason":"check under construction in this session (DESIGN.md §4); not claimed until its engine is committed"})
m["not_applicable"].sort(key=lambda x:x["property_id"])
json.dump(m, open(f"{V}/MANIFEST.json","w"), indent=1, ensure_ascii=False)
print("claimed:", sorted(claimed), "pending:", pending)
