#!/bin/bash
# try_seeded_ns.sh <abs patch.diff> <prop> [<prop>...]
# Like try_seeded.sh, but neither /repo nor /verif is touched: a clone of /repo with the patch
# applied and a copy of /verif are bind-mounted over /repo and /verif in a private mount
# namespace (unshare -m), and the quick checks run there. Scratch lives under /tmp/vtry
# (remove it when done: rm -rf /tmp/vtry).
set -u
P=$1; shift
S=/tmp/vtry
mkdir -p $S
if [ -d $S/verif ]; then
    rsync -a --delete --exclude target --exclude replays --exclude evidence /verif/ $S/verif/
else
    cp -a /verif $S/verif
fi
mkdir -p $S/verif/replays $S/verif/evidence
rm -rf $S/repo && git clone -q /repo $S/repo || exit 2
git -C $S/repo apply "$P" || { echo "patch does not apply"; exit 2; }
# keep cargo from rebuilding everything: give unchanged sources the mtimes they have in /repo
( cd /repo && git ls-files -z | xargs -0 -I{} sh -c 'cmp -s "/repo/{}" "'$S'/repo/{}" && touch -r "/repo/{}" "'$S'/repo/{}"' ) 2>/dev/null
cat > $S/run.sh <<EOS
#!/bin/bash
mount --bind $S/verif /verif && mount --bind $S/repo /repo || exit 2
cd /verif
for prop in $@; do
  echo "=== \$prop"
  timeout 1500 ./check \$prop quick > /tmp/try_ns.\$\$.log 2>&1
  rc=\$?
  grep -E "^violation|^VIOLATION|^KNOWN|^HARNESS|^runs=|^sim_io|^sim_sched|^miri|MIRI-STATS" /tmp/try_ns.\$\$.log | cut -c1-420 | head -16
  echo "rc=\$rc"
  rm -f /tmp/try_ns.\$\$.log
done
EOS
chmod +x $S/run.sh
unshare -m $S/run.sh
