//! C16 workloads: a text, calls the main task makes before the clients start, 2..4 client
//! tasks with 1..3 calls each, calls the main task makes while they run. The post-phase
//! (every line, one past the end, the count, on the same view) is fixed and not part of it.

use serde_json::{json, Value};
use simcore::hash::H64;
use simcore::refview::{Call, RefView};
use simcore::rng::Rng;

#[derive(Clone, Debug, PartialEq, Eq)]
pub struct Scenario {
    pub text: String,
    pub pre: Vec<Call>,
    pub threads: Vec<Vec<Call>>,
    pub main_during: Vec<Call>,
    /// when set, the main task clones the view before the clients start; clients with an odd
    /// number work on the clone, the others (and the main task) on the original; the post-phase
    /// covers both
    pub clone_split: bool,
}

const PIECES: [&str; 4] = ["", "a", "bb", "é"];
const TERMS: [&str; 3] = ["\n", "\r\n", "\r"];

pub fn gen_text(rng: &mut Rng) -> String {
    // 0..5 terminators => 1..6 lines; small texts are the likely ones (the smaller the text,
    // the larger the share of schedules in which one task finishes the index while another is
    // mid-call); 4 % of texts are longer (7..12 lines: long indexing loops, many switch points)
    let weights = [14u32, 24, 26, 18, 10, 8];
    // 2 % are long (60..260 lines): an implementation may batch its indexing (say 64 lines per
    // lock acquisition), and a workload that never exceeds the batch never leaves the first batch
    if rng.chance(1, 100) {
        // few lines, but long ones (thousands of bytes): an indexer that works in byte blocks
        // (4096, 8192 ...) must leave its first block
        let lines = 2 + rng.below(5);
        let mut t = String::new();
        for l in 0..lines {
            let piece = *rng.pick(&PIECES[1..]);
            t.push_str(&piece.repeat(rng.range_usize(500, 5000)));
            if l + 1 < lines {
                t.push_str(*rng.pick(&TERMS[..]));
            }
        }
        return t;
    }
    let terms = if rng.chance(1, 500) {
        rng.range_usize(1030, 1100)
    } else if rng.chance(1, 100) {
        // exactly a power of two (+-2) lines: the sizes internal batches are made of
        let k = 6 + rng.below(5) as u32;
        ((1i64 << k) + rng.below(4) as i64 - 2) as usize
    } else if rng.chance(1, 50) {
        rng.range_usize(60, 260)
    } else if rng.chance(1, 25) {
        rng.range_usize(6, 11)
    } else {
        rng.weighted(&weights)
    };
    let mut t = String::new();
    for i in 0..=terms {
        t.push_str(*rng.pick(&PIECES[..]));
        if i < terms {
            t.push_str(*rng.pick(&TERMS[..]));
        }
    }
    t
}

pub fn gen_call(rng: &mut Rng, nlines: u32) -> Call {
    match rng.weighted(&[52, 22, 12, 6, 4, 3, 1]) {
        6 => Call::Source,
        5 => Call::LinesTake(rng.below(nlines as u64 + 2) as u32),
        4 => Call::CloneGetLine(rng.below(nlines as u64 + 1) as u32),
        3 => {
            // a line request with a UTF-16 window: goes through get_line like the others
            let l = rng.below(nlines as u64 + 1) as u32;
            Call::GetLineSlice(l, rng.below(3) as u32, rng.below(3) as u32)
        }
        0 => {
            // present and absent indices: 0..=n+1, rarely u32::MAX
            if rng.chance(1, 16) {
                Call::GetLine(u32::MAX)
            } else {
                Call::GetLine(rng.below(nlines as u64 + 2) as u32)
            }
        }
        1 => Call::LineCount,
        _ => Call::Lines,
    }
}

pub fn gen(rng: &mut Rng) -> Scenario {
    let text = gen_text(rng);
    let n = RefView::new(&text).line_count() as u32;
    let npre = rng.weighted(&[55, 30, 15]);
    let pre = (0..npre).map(|_| gen_call(rng, n)).collect();
    // 2..4 clients with 1..3 calls each; 1 % of scenarios on small texts have a crowd of 8..16
    // clients with one call each (waiter queues, per-thread slots)
    let crowd = n <= 4 && rng.chance(1, 100);
    let nthreads = if crowd { rng.range_usize(8, 16) } else { 2 + rng.weighted(&[55, 30, 15]) };
    let threads = (0..nthreads)
        .map(|_| {
            let k = if crowd { 1 } else { 1 + rng.weighted(&[50, 30, 20]) };
            (0..k).map(|_| gen_call(rng, n)).collect()
        })
        .collect();
    let nmain = rng.weighted(&[70, 20, 10]);
    let main_during = (0..nmain).map(|_| gen_call(rng, n)).collect();
    let clone_split = rng.chance(1, 12);
    Scenario { text, pre, threads, main_during, clone_split }
}

impl Scenario {
    pub fn to_json(&self) -> Value {
        json!({
            "text": self.text,
            "pre": self.pre.iter().map(Call::to_json).collect::<Vec<_>>(),
            "threads": self.threads.iter().map(|t| t.iter().map(Call::to_json).collect::<Vec<_>>()).collect::<Vec<_>>(),
            "main_during": self.main_during.iter().map(Call::to_json).collect::<Vec<_>>(),
            "clone_split": self.clone_split,
        })
    }

    pub fn from_json(v: &Value) -> Option<Scenario> {
        let calls = |v: &Value| -> Option<Vec<Call>> { v.as_array()?.iter().map(Call::from_json).collect() };
        Some(Scenario {
            text: v.get("text")?.as_str()?.to_string(),
            pre: calls(v.get("pre")?)?,
            threads: v.get("threads")?.as_array()?.iter().map(calls).collect::<Option<Vec<_>>>()?,
            main_during: calls(v.get("main_during")?)?,
            clone_split: v.get("clone_split").and_then(|b| b.as_bool()).unwrap_or(false),
        })
    }

    pub fn hash(&self) -> u64 {
        let mut h = H64::new();
        h.str(&self.text);
        let calls = |cs: &Vec<Call>, h: &mut H64| {
            h.u64(cs.len() as u64);
            for c in cs {
                c.hash_into(h);
            }
        };
        calls(&self.pre, &mut h);
        h.u64(self.threads.len() as u64);
        for t in &self.threads {
            calls(t, &mut h);
        }
        calls(&self.main_during, &mut h);
        h.u64(self.clone_split as u64);
        h.finish()
    }

    pub fn total_calls(&self) -> usize {
        self.pre.len() + self.main_during.len() + self.threads.iter().map(Vec::len).sum::<usize>()
    }

    /// Smaller variants for minimisation, simplest first.
    pub fn shrink_candidates(&self) -> Vec<Scenario> {
        let mut out = Vec::new();
        // drop a whole client (keep at least one: the main task is the second party)
        if self.threads.len() > 1 {
            for i in 0..self.threads.len() {
                let mut s = self.clone();
                s.threads.remove(i);
                out.push(s);
            }
        }
        if self.clone_split {
            let mut s = self.clone();
            s.clone_split = false;
            out.push(s);
        }
        if !self.main_during.is_empty() {
            let mut s = self.clone();
            s.main_during.clear();
            out.push(s);
        }
        if !self.pre.is_empty() {
            for i in 0..self.pre.len() {
                let mut s = self.clone();
                s.pre.remove(i);
                out.push(s);
            }
        }
        for t in 0..self.threads.len() {
            if self.threads[t].len() > 1 {
                for i in 0..self.threads[t].len() {
                    let mut s = self.clone();
                    s.threads[t].remove(i);
                    out.push(s);
                }
            }
        }
        for i in 0..self.main_during.len() {
            let mut s = self.clone();
            s.main_during.remove(i);
            out.push(s);
        }
        // shorten the text (character-wise, keeping UTF-8 valid)
        let chars: Vec<char> = self.text.chars().collect();
        for i in 0..chars.len() {
            let mut s = self.clone();
            s.text = chars.iter().enumerate().filter(|(j, _)| *j != i).map(|(_, c)| *c).collect();
            out.push(s);
        }
        // simplify calls: lines -> line_count -> get_line(smaller)
        let simpler = |c: &Call| -> Vec<Call> {
            match c {
                Call::Lines => vec![Call::LineCount, Call::GetLine(0)],
                Call::LineCount => vec![Call::GetLine(0)],
                Call::GetLine(i) if *i == u32::MAX => vec![Call::GetLine(1), Call::GetLine(0)],
                Call::GetLine(i) if *i > 0 => vec![Call::GetLine(i - 1)],
                Call::CloneGetLine(i) => vec![Call::GetLine(*i)],
                Call::LinesTake(_) => vec![Call::Lines, Call::LineCount],
                Call::Source => vec![Call::LineCount],
                _ => vec![],
            }
        };
        for t in 0..self.threads.len() {
            for i in 0..self.threads[t].len() {
                for c in simpler(&self.threads[t][i]) {
                    let mut s = self.clone();
                    s.threads[t][i] = c;
                    out.push(s);
                }
            }
        }
        for i in 0..self.pre.len() {
            for c in simpler(&self.pre[i]) {
                let mut s = self.clone();
                s.pre[i] = c;
                out.push(s);
            }
        }
        for i in 0..self.main_during.len() {
            for c in simpler(&self.main_during[i]) {
                let mut s = self.clone();
                s.main_during[i] = c;
                out.push(s);
            }
        }
        out
    }
}
