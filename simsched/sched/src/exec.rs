//! One simulated execution of a C16 scenario: real `SourceView` code (built with
//! `--cfg sourcemap_verif`, so its Mutex and AtomicUsize are shuttle's), client tasks as shuttle
//! threads, every scheduling decision taken by `SimScheduler`.

use crate::sched::{Mode, Plan, Shared, SimScheduler, Trace};
use crate::workload::Scenario;
use shuttle::{Config, FailurePersistence, MaxSteps, Runner};
use simcore::hash::H64;
use simcore::panics::{self, PanicInfo};
use simcore::refview::{apply, Call, RefView, Res, ViewApi};
use sourcemap::SourceView;
use std::panic::{catch_unwind, AssertUnwindSafe};
use std::sync::{Arc, Mutex};

/// Upper bound on scheduling decisions in one run. The largest generated scenario (1100 lines,
/// several tasks iterating all lines, plus the post-phase) needs about 60 000; anything near this
/// bound is a livelock, not a long run.
pub const MAX_STEPS: usize = 2_000_000;

#[derive(Clone, Copy, Debug, PartialEq, Eq)]
pub enum Phase {
    Pre,
    During,
    Post,
}

#[derive(Clone, Debug)]
pub struct Rec {
    /// 0 = main task, 1.. = clients
    pub task: u8,
    pub phase: Phase,
    pub call: Call,
    /// simulator's global event sequence number at invocation / at return
    pub invoke: u64,
    pub ret: u64,
    pub res: Res,
}

pub struct RealView(pub SourceView);

impl ViewApi for RealView {
    fn new_view(text: &str) -> Self {
        RealView(SourceView::new(text.into()))
    }
    fn clone_view(&self) -> Self {
        RealView(self.0.clone())
    }
    fn get_line(&self, idx: u32) -> Option<&str> {
        self.0.get_line(idx)
    }
    fn line_count(&self) -> usize {
        self.0.line_count()
    }
    fn lines_collect(&self, take: Option<u32>) -> Vec<String> {
        match take {
            None => self.0.lines().map(simcore::refview::own).collect(),
            Some(k) => self.0.lines().take(k as usize).map(simcore::refview::own).collect(),
        }
    }
    fn get_line_slice(&self, line: u32, col: u32, span: u32) -> Option<&str> {
        self.0.get_line_slice(line, col, span)
    }
    fn source(&self) -> &str {
        self.0.source()
    }
}

fn do_call(view: &RealView, shared: &Arc<Mutex<Shared>>, task: u8, phase: Phase, call: &Call) {
    let invoke = shared.lock().unwrap().trace.step;
    let res = apply(view, call);
    let mut sh = shared.lock().unwrap();
    let ret = sh.trace.step;
    sh.trace.history.push(Rec { task, phase, call: call.clone(), invoke, ret, res });
}

pub fn post_calls(nlines: u32) -> Vec<Call> {
    let mut v: Vec<Call> = (0..nlines).map(Call::GetLine).collect();
    v.push(Call::GetLine(nlines));
    v.push(Call::LineCount);
    v
}

pub struct Outcome {
    pub trace: Trace,
    pub panic: Option<PanicInfo>,
}

fn scenario_body(shared: &Arc<Mutex<Shared>>) {
    let sc = shared.lock().unwrap().scenario.clone().expect("scenario armed");
    let nlines = RefView::new(&sc.text).line_count() as u32;
    let view = Arc::new(RealView::new_view(&sc.text));
    for c in &sc.pre {
        do_call(&view, shared, 0, Phase::Pre, c);
    }
    // optionally a clone made by the main task (after the pre-phase, so it may copy a partly
    // indexed view) that some clients use while others index the original
    let second = if sc.clone_split { Some(Arc::new(view.clone_view())) } else { None };
    let mut handles = Vec::new();
    for (i, calls) in sc.threads.iter().enumerate() {
        let view = match (&second, i % 2) {
            (Some(c), 1) => c.clone(),
            _ => view.clone(),
        };
        let sh = shared.clone();
        let calls = calls.clone();
        handles.push(shuttle::thread::spawn(move || {
            for c in &calls {
                do_call(&view, &sh, (i + 1) as u8, Phase::During, c);
            }
        }));
    }
    for c in &sc.main_during {
        do_call(&view, shared, 0, Phase::During, c);
    }
    for h in handles {
        // a client panic aborts the whole execution before we get here
        let _ = h.join();
    }
    for c in post_calls(nlines) {
        do_call(&view, shared, 0, Phase::Post, &c);
    }
    if let Some(c2) = &second {
        for c in post_calls(nlines) {
            do_call(c2, shared, 0, Phase::Post, &c);
        }
    }
    shared.lock().unwrap().trace.finished_main = true;
}

/// Execute the planned runs in order and return one outcome per plan. One shuttle `Runner`
/// serves consecutive runs (its coroutine stacks are reused); a run that panics ends its
/// runner, and the next run starts a new one.
thread_local! {
    /// set once an execution on this OS thread ended in a panic: shuttle's per-thread state may
    /// then be stale (leaked continuations, a modelled mutex still marked held), so every later
    /// block is run on a fresh thread
    static POLLUTED: std::cell::Cell<bool> = const { std::cell::Cell::new(false) };
}

pub fn execute_block(plans: &Arc<Vec<Plan>>) -> Vec<Outcome> {
    if POLLUTED.with(|p| p.get()) {
        let plans2 = plans.clone();
        let res = std::thread::Builder::new()
            .stack_size(64 << 20)
            .spawn(move || {
                simcore::panics::clear();
                execute_block(&plans2)
            })
            .expect("spawn")
            .join();
        if let Ok(v) = res {
            return v;
        }
        return (0..plans.len())
            .map(|_| Outcome { trace: Trace::default(), panic: Some(PanicInfo { file: "<harness>".into(), line: 0, msg: "worker thread for a block died".into() }) })
            .collect();
    }
    let n = plans.len();
    let mut outcomes: Vec<Option<Outcome>> = (0..n).map(|_| None).collect();
    let mut first = 0usize;
    let mut after_panic = false;
    while first < n {
        if after_panic {
            // an execution that ended in a panic leaves shuttle's per-thread state (leaked
            // continuations, a held modelled mutex) behind; the rest of the block runs on a
            // fresh OS thread so that later runs cannot trip over it
            let plans2 = plans.clone();
            let rest = std::thread::Builder::new()
                .stack_size(64 << 20)
                .spawn(move || {
                    simcore::panics::clear();
                    let tail: Arc<Vec<Plan>> = Arc::new(plans2[first..].to_vec());
                    execute_block(&tail)
                })
                .expect("spawn")
                .join();
            match rest {
                Ok(v) => {
                    for (k, o) in v.into_iter().enumerate() {
                        outcomes[first + k] = Some(o);
                    }
                }
                Err(_) => {
                    for slot in outcomes.iter_mut().skip(first) {
                        if slot.is_none() {
                            *slot = Some(Outcome { trace: Trace::default(), panic: Some(PanicInfo { file: "<harness>".into(), line: 0, msg: "worker thread for the rest of the block died".into() }) });
                        }
                    }
                }
            }
            break;
        }
        let shared = Arc::new(Mutex::new(Shared::default()));
        let scheduler = SimScheduler::new(plans.clone(), first, shared.clone());
        let mut cfg = Config::new();
        cfg.failure_persistence = FailurePersistence::None;
        cfg.max_steps = MaxSteps::FailAfter(MAX_STEPS);
        cfg.silence_warnings = true;
        cfg.stack_size = 128 * 1024;
        let runner = Runner::new(scheduler, cfg);
        let sh2 = shared.clone();
        panics::clear();
        let result = catch_unwind(AssertUnwindSafe(move || {
            runner.run(move || scenario_body(&sh2));
        }));
        let mut sh = shared.lock().unwrap_or_else(|e| e.into_inner());
        for (idx, t) in std::mem::take(&mut sh.done) {
            outcomes[idx] = Some(Outcome { trace: t, panic: None });
        }
        match result {
            Ok(()) => {
                let stray = panics::take();
                if let Some(p) = stray {
                    // a panic that did not propagate: attribute it to the last run so it is judged
                    if let Some(o) = outcomes.iter_mut().rev().flatten().next() {
                        o.panic = Some(p);
                    }
                }
                first = n;
            }
            Err(_) => {
                let p = panics::take().unwrap_or(PanicInfo {
                    file: "<unknown>".into(),
                    line: 0,
                    msg: "panic without hook record".into(),
                });
                after_panic = true;
                POLLUTED.with(|p| p.set(true));
                match sh.cur {
                    Some(c) => {
                        outcomes[c] = Some(Outcome { trace: std::mem::take(&mut sh.trace), panic: Some(p) });
                        first = c + 1;
                    }
                    None => {
                        // panic outside any execution: harness problem, surface it on the first missing run
                        let c = outcomes.iter().position(|o| o.is_none()).unwrap_or(n - 1);
                        outcomes[c] = Some(Outcome { trace: Trace::default(), panic: Some(p) });
                        first = c + 1;
                    }
                }
            }
        }
    }
    outcomes
        .into_iter()
        .map(|o| o.unwrap_or(Outcome { trace: Trace::default(), panic: None }))
        .collect()
}

/// Execute `sc` once under `mode` (scheduler PRNG seeded with `sched_seed`).
pub fn execute(sc: &Arc<Scenario>, mode: Mode, sched_seed: u64) -> Outcome {
    let plans = Arc::new(vec![Plan { scenario: sc.clone(), mode, sched_seed }]);
    execute_block(&plans).pop().unwrap()
}

#[derive(Clone, Debug, PartialEq, Eq)]
pub enum Verdict {
    Held,
    /// (signature, human-readable detail)
    Violated(String, String),
    /// not a statement about the library: harness must stop with exit 2
    Harness(String),
}

pub fn judge(sc: &Scenario, out: &Outcome) -> Verdict {
    let model = RefView::new(&sc.text);
    if let Some(p) = &out.panic {
        let class = panics::message_class(&p.msg);
        if class == "deadlock" {
            return Verdict::Violated("deadlock".into(), p.msg.clone());
        }
        if class == "step-bound" {
            return Verdict::Violated("step-bound".into(), p.msg.clone());
        }
        if panics::repo_relative(&p.file).is_some() {
            return Verdict::Violated(panics::signature(p), format!("{} at {}:{}", p.msg, p.file, p.line));
        }
        return Verdict::Harness(format!("panic outside the library: {} at {}:{}", p.msg, p.file, p.line));
    }
    if !out.trace.finished_main {
        return Verdict::Harness("execution ended without panic and without finishing".into());
    }
    for r in &out.trace.history {
        let want = model.answer(&r.call);
        if r.res != want {
            let prefix = if r.phase == Phase::Post { "post-mismatch" } else { "mismatch" };
            let sig = format!("{}:{}:{}-for-{}", prefix, r.call.kind(), r.res.class(), want.class());
            let detail = format!(
                "task {} {:?} call {:?} (events {}..{}) returned {:?}, a fresh single-threaded view returns {:?}",
                r.task, r.phase, r.call, r.invoke, r.ret, r.res, want
            );
            return Verdict::Violated(sig, detail);
        }
    }
    let expected_calls = sc.total_calls() + post_calls(model.line_count() as u32).len() * if sc.clone_split { 2 } else { 1 };
    if out.trace.history.len() != expected_calls {
        return Verdict::Harness(format!(
            "history has {} records, expected {}",
            out.trace.history.len(),
            expected_calls
        ));
    }
    Verdict::Held
}

/// Hash of everything observable in a run: the decisions, the history with its sequence
/// numbers, and the panic if any. Two executions of the same run must agree on it.
pub fn event_hash(out: &Outcome) -> u64 {
    let mut h = H64::new();
    h.bytes(&out.trace.choices);
    h.u64(out.trace.history.len() as u64);
    for r in &out.trace.history {
        h.u64(r.task as u64);
        h.u64(r.phase as u64);
        r.call.hash_into(&mut h);
        h.u64(r.invoke);
        h.u64(r.ret);
        r.res.hash_into(&mut h);
    }
    if let Some(p) = &out.panic {
        h.str(&p.file);
        h.u64(p.line as u64);
        h.str(&p.msg);
    }
    h.finish()
}

/// Interleaving facts derived from the recorded history.
pub struct Overlap {
    /// two calls of different tasks overlapped in simulated time
    pub any: bool,
    /// a call that needed the index overlapped with a call that completes it
    pub with_finisher: bool,
}

pub fn overlap(sc: &Scenario, out: &Outcome) -> Overlap {
    let n = RefView::new(&sc.text).line_count() as u32;
    let finisher = |c: &Call| match c {
        Call::LineCount | Call::Lines => true,
        Call::GetLine(i) => *i as u64 + 1 >= n as u64,
        _ => false,
    };
    let mut any = false;
    let mut with_finisher = false;
    let h: Vec<&Rec> = out.trace.history.iter().filter(|r| r.phase == Phase::During).collect();
    for (i, a) in h.iter().enumerate() {
        for b in h.iter().skip(i + 1) {
            if a.task != b.task && a.invoke < b.ret && b.invoke < a.ret {
                any = true;
                if finisher(&a.call) || finisher(&b.call) {
                    with_finisher = true;
                }
            }
        }
    }
    Overlap { any, with_finisher }
}
