//! `SimScheduler`: the harness's own implementation of shuttle's `Scheduler` trait.
//! Every decision comes from the run's PRNG (or from an explicit replay list), is appended to
//! the shared trace, and nothing else (environment, clock) is consulted.

use shuttle::scheduler::{Schedule, Scheduler, Task, TaskId};
use simcore::rng::Rng;
use std::sync::{Arc, Mutex};

#[derive(Clone, Debug, PartialEq, Eq)]
pub enum Mode {
    /// uniform over runnable tasks at every scheduling point
    Uniform,
    /// stay on the current task unless a coin with probability pct/100 says switch
    Sticky(u32),
    /// priority based, `depth` priority change points (PCT-like)
    Pct(u32),
    /// run the chosen task for a burst of k decisions, then force a switch to another task; k is
    /// drawn around small numbers and around multiples of the per-line cost of the scenario
    Burst,
    /// explicit list of task ids; when it runs out (or names a task that is not runnable)
    /// stay on the current task if runnable, else the lowest runnable id
    Replay(Vec<u8>),
}

impl Mode {
    pub fn name(&self) -> &'static str {
        match self {
            Mode::Uniform => "uniform",
            Mode::Sticky(_) => "sticky",
            Mode::Pct(_) => "pct",
            Mode::Burst => "burst",
            Mode::Replay(_) => "replay",
        }
    }
    pub fn draw(rng: &mut Rng) -> Mode {
        match rng.weighted(&[34, 30, 22, 14]) {
            0 => Mode::Uniform,
            1 => Mode::Sticky(*rng.pick(&[5, 20, 50])),
            2 => Mode::Pct(1 + rng.below(3) as u32),
            _ => Mode::Burst,
        }
    }
}

/// What the scheduler and the client tasks write while a run proceeds.
#[derive(Default, Debug)]
pub struct Trace {
    /// global event sequence number = number of scheduling decisions taken so far
    pub step: u64,
    pub choices: Vec<u8>,
    /// number of decisions that switched away from a task that could have continued
    pub preemptions: u32,
    /// replay list named a task that was not runnable (replay only)
    pub replay_divergences: u32,
    pub max_runnable: usize,
    pub history: Vec<crate::exec::Rec>,
    pub finished_main: bool,
}

/// One planned run: what to execute and how to schedule it.
#[derive(Clone, Debug)]
pub struct Plan {
    pub scenario: Arc<crate::workload::Scenario>,
    pub mode: Mode,
    pub sched_seed: u64,
}

/// State shared between the scheduler, the client tasks and the driver for a block of runs
/// executed by one shuttle `Runner` (which reuses its coroutine stacks across executions).
#[derive(Default)]
pub struct Shared {
    /// index (within the block) of the run being executed
    pub cur: Option<usize>,
    pub scenario: Option<Arc<crate::workload::Scenario>>,
    pub trace: Trace,
    /// traces of the runs that ended without a panic, by block index
    pub done: Vec<(usize, Trace)>,
}

pub struct SimScheduler {
    plans: Arc<Vec<Plan>>,
    first: usize,
    rng: Rng,
    mode: Mode,
    pos: usize,
    shared: Arc<Mutex<Shared>>,
    // PCT state
    prio: Vec<u64>,
    change_points: Vec<u64>,
    next_low: u64,
    // Burst state
    burst_left: u64,
    burst_unit: u64,
}

impl SimScheduler {
    /// Scheduler for the runs `first..` of `plans`.
    pub fn new(plans: Arc<Vec<Plan>>, first: usize, shared: Arc<Mutex<Shared>>) -> SimScheduler {
        SimScheduler {
            plans,
            first,
            rng: Rng::new(0),
            mode: Mode::Uniform,
            pos: 0,
            shared,
            prio: Vec::new(),
            change_points: Vec::new(),
            next_low: 1_000,
            burst_left: 0,
            burst_unit: 1,
        }
    }

    fn arm(&mut self, plan: &Plan) {
        let mut rng = Rng::new(plan.sched_seed);
        let mut change_points = Vec::new();
        // rough length of this run in decisions: about three per indexed line and call
        let nlines = simcore::refview::RefView::new(&plan.scenario.text).line_count() as u64;
        let est = 10 + 3 * nlines * (plan.scenario.total_calls() as u64 + 2);
        if let Mode::Pct(depth) = plan.mode {
            // change points early-biased for the small scenarios, and scaled to the estimated
            // length for the long ones (otherwise every priority change of a 50 000-step run
            // would fall into its first hundred steps)
            for _ in 0..depth {
                let horizon = *rng.pick(&[12u64, 24, 48, 96, est / 4 + 1, est / 2 + 1, est + 1]);
                change_points.push(rng.below(horizon));
            }
        }
        self.burst_left = 0;
        self.burst_unit = (3 * nlines).max(1);
        self.rng = rng;
        self.mode = plan.mode.clone();
        self.pos = 0;
        self.prio.clear();
        self.change_points = change_points;
        self.next_low = 1_000;
    }
}

impl Scheduler for SimScheduler {
    fn new_execution(&mut self) -> Option<Schedule> {
        let next = {
            let mut sh = self.shared.lock().unwrap();
            let next = match sh.cur {
                Some(c) => {
                    // the previous run ended without a panic
                    let t = std::mem::take(&mut sh.trace);
                    sh.done.push((c, t));
                    c + 1
                }
                None => self.first,
            };
            if next >= self.plans.len() {
                sh.cur = None;
                sh.scenario = None;
                return None;
            }
            sh.cur = Some(next);
            sh.scenario = Some(self.plans[next].scenario.clone());
            sh.trace = Trace::default();
            next
        };
        let plan = self.plans[next].clone();
        self.arm(&plan);
        Some(Schedule::new(0))
    }

    fn next_task(&mut self, runnable: &[&Task], current: Option<TaskId>, _is_yielding: bool) -> Option<TaskId> {
        let mut ids: Vec<usize> = runnable.iter().map(|t| usize::from(t.id())).collect();
        ids.sort_unstable();
        let cur = current.map(usize::from);
        let cur_runnable = cur.map(|c| ids.contains(&c)).unwrap_or(false);
        let mut diverged = false;
        // a task that asks to yield (spin loop, try_lock + yield_now) must not be re-chosen forever
        // by a priority scheduler: prefer any other runnable task
        let others: Vec<usize> = ids.iter().copied().filter(|i| Some(*i) != cur).collect();
        let choice = if _is_yielding && !others.is_empty() && !matches!(self.mode, Mode::Replay(_)) {
            others[self.rng.below_usize(others.len())]
        } else {
            match &self.mode {
            Mode::Uniform => ids[self.rng.below_usize(ids.len())],
            Mode::Sticky(pct) => {
                if cur_runnable && !self.rng.chance(*pct as u64, 100) {
                    cur.unwrap()
                } else {
                    ids[self.rng.below_usize(ids.len())]
                }
            }
            Mode::Pct(_) => {
                let maxid = *ids.last().unwrap();
                while self.prio.len() <= maxid {
                    // new tasks get a random high priority
                    let p = 1_000_000 + self.rng.below(1_000_000);
                    self.prio.push(p);
                }
                let step = self.pos as u64;
                if self.change_points.contains(&step) {
                    if let Some(c) = cur {
                        if c < self.prio.len() {
                            self.next_low -= 1;
                            self.prio[c] = self.next_low;
                        }
                    }
                }
                *ids.iter().max_by_key(|&&i| (self.prio[i], usize::MAX - i)).unwrap()
            }
            Mode::Burst => {
                if self.burst_left > 0 && cur_runnable {
                    self.burst_left -= 1;
                    cur.unwrap()
                } else {
                    // new burst: another task if there is one
                    let pool = if others.is_empty() { &ids } else { &others };
                    let pick = pool[self.rng.below_usize(pool.len())];
                    let unit = self.burst_unit;
                    self.burst_left = match self.rng.below(6) {
                        0 => 0,
                        1 => self.rng.below(4),
                        2 => self.rng.below(12),
                        3 => unit.saturating_sub(2) + self.rng.below(5),
                        4 => (unit * (1 + self.rng.below(3))).saturating_sub(2) + self.rng.below(5),
                        _ => unit / 2 + self.rng.below(3),
                    };
                    pick
                }
            }
            Mode::Replay(list) => {
                let want = list.get(self.pos).map(|&b| b as usize);
                match want {
                    Some(w) if ids.contains(&w) => w,
                    other => {
                        if other.is_some() {
                            diverged = true;
                        }
                        if cur_runnable {
                            cur.unwrap()
                        } else {
                            ids[0]
                        }
                    }
                }
            }
            }
        };
        self.pos += 1;
        {
            let mut sh = self.shared.lock().unwrap();
            let t = &mut sh.trace;
            t.step += 1;
            t.choices.push(choice.min(255) as u8);
            if cur_runnable && Some(choice) != cur {
                t.preemptions += 1;
            }
            if diverged {
                t.replay_divergences += 1;
            }
            if ids.len() > t.max_runnable {
                t.max_runnable = ids.len();
            }
        }
        Some(TaskId::from(choice))
    }

    fn next_u64(&mut self) -> u64 {
        self.rng.next_u64()
    }
}
