//! sim_sched — deterministic simulation of threads sharing one `SourceView` (property C16).
//!
//! usage: sim_sched C16 [--tier quick|thorough] [--runs N] [--seed S] [--workers W]
//!        sim_sched C16 --replay <file>
//!        sim_sched C16 --digest [--runs N]         (prints the batch digest only; used by selftest)

mod exec;
mod sched;
mod workload;

use exec::{event_hash, execute, judge, overlap, Outcome, Verdict};
use sched::{Mode, Plan};
use serde_json::{json, Value};
use simcore::findings::Findings;
use simcore::hash::{KeySet, H64};
use simcore::rng::{self, Rng};
use simcore::{harness_error, Args, Tier};
use std::collections::BTreeMap;
use std::sync::atomic::AtomicBool;
use std::sync::Arc;
use workload::Scenario;

const PROP: &str = "C16";

fn plan(run_seed: u64) -> Plan {
    let mut rng = Rng::new(run_seed);
    let scenario = Arc::new(workload::gen(&mut rng));
    let mode = Mode::draw(&mut rng);
    let sched_seed = rng.next_u64();
    Plan { scenario, mode, sched_seed }
}

#[derive(Default)]
struct Acc {
    runs: u64,
    steps: u64,
    preemptions: u64,
    overlap_runs: u64,
    finisher_overlap_runs: u64,
    mode_counts: BTreeMap<&'static str, u64>,
    thread_counts: BTreeMap<usize, u64>,
    call_counts: BTreeMap<&'static str, u64>,
    text_lines: BTreeMap<usize, u64>,
    distinct_all: KeySet,
    distinct_nontrivial: KeySet,
    distinct_scenarios: KeySet,
    max_steps_seen: u64,
    digest: u64,
    det_checked: u64,
    det_mismatch: Vec<u64>,
    /// signature -> (lowest run index, count, detail of the lowest)
    violations: BTreeMap<String, (u64, u64, String)>,
    harness: Vec<String>,
    samples: Vec<(u64, Value)>,
}

fn choices_json(c: &[u8]) -> Value {
    Value::Array(c.iter().map(|&b| json!(b)).collect())
}

fn block(acc: &mut Acc, base_seed: u64, lo: u64, hi: u64, det_n: u64, want_samples: usize) {
    simcore::isolate::trace_run(lo);
    let plans: Arc<Vec<Plan>> = Arc::new((lo..hi).map(|i| plan(rng::mix(base_seed, simcore::stage_domain(PROP), i))).collect());
    let outs = exec::execute_block(&plans);
    for (k, out) in outs.into_iter().enumerate() {
        one_run(acc, base_seed, lo + k as u64, &plans[k], out, det_n, want_samples);
    }
}

fn one_run(acc: &mut Acc, base_seed: u64, i: u64, p: &Plan, out: Outcome, det_n: u64, want_samples: usize) {
    let run_seed = rng::mix(base_seed, simcore::stage_domain(PROP), i);
    let eh = event_hash(&out);
    if i < det_n {
        let out2 = execute(&p.scenario, p.mode.clone(), p.sched_seed);
        acc.det_checked += 1;
        if event_hash(&out2) != eh {
            acc.det_mismatch.push(i);
        }
    }
    acc.runs += 1;
    acc.steps += out.trace.step;
    acc.preemptions += out.trace.preemptions as u64;
    acc.max_steps_seen = acc.max_steps_seen.max(out.trace.step);
    *acc.mode_counts.entry(p.mode.name()).or_default() += 1;
    *acc.thread_counts.entry(p.scenario.threads.len()).or_default() += 1;
    *acc.text_lines.entry(simcore::refview::RefView::new(&p.scenario.text).line_count()).or_default() += 1;
    for r in &out.trace.history {
        *acc.call_counts.entry(r.call.kind()).or_default() += 1;
    }
    let sh = p.scenario.hash();
    acc.distinct_scenarios.insert(sh);
    let mut k = H64::new();
    k.u64(sh);
    k.bytes(&out.trace.choices);
    let key = k.finish();
    acc.distinct_all.insert(key);
    let ov = overlap(&p.scenario, &out);
    if ov.any {
        acc.overlap_runs += 1;
        acc.distinct_nontrivial.insert(key);
    }
    if ov.with_finisher {
        acc.finisher_overlap_runs += 1;
    }
    let mut d = H64::new();
    d.u64(i);
    d.u64(eh);
    acc.digest = acc.digest.wrapping_add(d.finish());
    match judge(&p.scenario, &out) {
        Verdict::Held => {}
        Verdict::Violated(sig, detail) => {
            let e = acc.violations.entry(sig).or_insert((i, 0, detail.clone()));
            e.1 += 1;
            if i < e.0 {
                e.0 = i;
                e.2 = detail;
            }
        }
        Verdict::Harness(msg) => {
            if acc.harness.len() < 5 {
                acc.harness.push(format!("run {i} (seed {run_seed}): {msg}"));
            }
        }
    }
    if (i as usize) < want_samples {
        acc.samples.push((
            i,
            json!({
                "run_index": i,
                "run_seed": run_seed,
                "mode": format!("{:?}", p.mode),
                "scenario": p.scenario.to_json(),
                "schedule": choices_json(&out.trace.choices),
                "steps": out.trace.step,
                "preemptions": out.trace.preemptions,
                "history": out.trace.history.iter().map(|r| json!({
                    "task": r.task, "phase": format!("{:?}", r.phase), "call": r.call.to_json(),
                    "invoke": r.invoke, "return": r.ret, "result": r.res.to_json()})).collect::<Vec<_>>(),
            }),
        ));
    }
}

fn merge(accs: Vec<Acc>) -> Acc {
    let mut m = Acc::default();
    for a in accs {
        m.runs += a.runs;
        m.steps += a.steps;
        m.preemptions += a.preemptions;
        m.overlap_runs += a.overlap_runs;
        m.finisher_overlap_runs += a.finisher_overlap_runs;
        for (k, v) in a.mode_counts {
            *m.mode_counts.entry(k).or_default() += v;
        }
        for (k, v) in a.thread_counts {
            *m.thread_counts.entry(k).or_default() += v;
        }
        for (k, v) in a.call_counts {
            *m.call_counts.entry(k).or_default() += v;
        }
        for (k, v) in a.text_lines {
            *m.text_lines.entry(k).or_default() += v;
        }
        m.distinct_all.merge(a.distinct_all);
        m.distinct_nontrivial.merge(a.distinct_nontrivial);
        m.distinct_scenarios.merge(a.distinct_scenarios);
        m.max_steps_seen = m.max_steps_seen.max(a.max_steps_seen);
        m.digest = m.digest.wrapping_add(a.digest);
        m.det_checked += a.det_checked;
        m.det_mismatch.extend(a.det_mismatch);
        for (sig, (idx, cnt, det)) in a.violations {
            let e = m.violations.entry(sig).or_insert((idx, 0, det.clone()));
            e.1 += cnt;
            if idx < e.0 {
                e.0 = idx;
                e.2 = det;
            }
        }
        m.harness.extend(a.harness);
        m.samples.extend(a.samples);
    }
    m.samples.sort_by_key(|s| s.0);
    m.harness.sort();
    m.det_mismatch.sort_unstable();
    m
}

/// Re-execute an explicit (scenario, schedule) pair.
fn replay_exec(sc: &Arc<Scenario>, schedule: &[u8]) -> (Outcome, Verdict) {
    let out = execute(sc, Mode::Replay(schedule.to_vec()), 0);
    let v = judge(sc, &out);
    (out, v)
}

fn sig_of(v: &Verdict) -> Option<&str> {
    match v {
        Verdict::Violated(s, _) => Some(s),
        _ => None,
    }
}

fn count_switches(choices: &[u8]) -> usize {
    choices.windows(2).filter(|w| w[0] != w[1]).count()
}

/// Minimise a failing (scenario, schedule): shrink the workload (re-searching derived seeds
/// for the same signature), then remove context switches greedily.
fn minimise(sc0: &Arc<Scenario>, schedule0: &[u8], sig: &str, search_seed: u64) -> (Arc<Scenario>, Vec<u8>, Value) {
    let mut sc = sc0.clone();
    let mut schedule = schedule0.to_vec();
    let mut probes = 0u64;
    let mut shrink_steps = 0u64;
    // the whole minimisation is bounded in executed scheduling decisions, so that a violation in a
    // large scenario cannot turn the report into an open-ended search
    let mut budget_steps: i64 = 40_000_000;
    // (0) large texts first: drop whole halves / quarters of the text while the signature persists
    loop {
        let chars: Vec<char> = sc.text.chars().collect();
        if chars.len() < 16 || budget_steps <= 0 {
            break;
        }
        let mut progressed = false;
        for parts in [2usize, 4, 8] {
            let chunk = chars.len() / parts;
            for k in 0..parts {
                let mut s2 = (*sc).clone();
                s2.text = chars[..k * chunk].iter().chain(chars[((k + 1) * chunk).min(chars.len())..].iter()).collect();
                let cand = Arc::new(s2);
                probes += 1;
                let (out, v) = replay_exec(&cand, &schedule);
                budget_steps -= out.trace.step as i64 + 1;
                let mut ok = sig_of(&v) == Some(sig);
                let mut ch = out.trace.choices.clone();
                if !ok {
                    for j in 0..24u64 {
                        probes += 1;
                        let s = rng::mix(search_seed, cand.hash(), j);
                        let mut r = Rng::new(s);
                        let mode = Mode::draw(&mut r);
                        let o = execute(&cand, mode, r.next_u64());
                        budget_steps -= o.trace.step as i64 + 1;
                        if sig_of(&judge(&cand, &o)) == Some(sig) {
                            ok = true;
                            ch = o.trace.choices.clone();
                            break;
                        }
                        if budget_steps <= 0 {
                            break;
                        }
                    }
                }
                if ok {
                    sc = cand;
                    schedule = ch;
                    shrink_steps += 1;
                    progressed = true;
                    break;
                }
            }
            if progressed {
                break;
            }
        }
        if !progressed {
            break;
        }
    }
    // (1) workload
    'outer: loop {
        if budget_steps <= 0 {
            break;
        }
        for cand in sc.shrink_candidates() {
            if budget_steps <= 0 {
                break 'outer;
            }
            let cand = Arc::new(cand);
            // try the current schedule with fallback first, then derived seeds
            probes += 1;
            let (out, v) = replay_exec(&cand, &schedule);
            budget_steps -= out.trace.step as i64 + 1;
            if sig_of(&v) == Some(sig) {
                sc = cand;
                schedule = out.trace.choices.clone();
                shrink_steps += 1;
                continue 'outer;
            }
            let mut found = None;
            for k in 0..400u64 {
                if budget_steps <= 0 {
                    break;
                }
                probes += 1;
                let s = rng::mix(search_seed, cand.hash(), k);
                let mut r = Rng::new(s);
                let mode = Mode::draw(&mut r);
                let out = execute(&cand, mode, r.next_u64());
                budget_steps -= out.trace.step as i64 + 1;
                if sig_of(&judge(&cand, &out)) == Some(sig) {
                    found = Some(out.trace.choices.clone());
                    break;
                }
            }
            if let Some(ch) = found {
                sc = cand;
                schedule = ch;
                shrink_steps += 1;
                continue 'outer;
            }
        }
        break;
    }
    // (2) schedule: replace each decision by "stay on the previous task" where possible
    let mut i = 1;
    while i < schedule.len() && budget_steps > 0 {
        if schedule[i] != schedule[i - 1] {
            let mut cand = schedule.clone();
            cand[i] = cand[i - 1];
            probes += 1;
            let (out, v) = replay_exec(&sc, &cand);
            budget_steps -= out.trace.step as i64 + 1;
            if sig_of(&v) == Some(sig) && count_switches(&out.trace.choices) < count_switches(&schedule) {
                schedule = out.trace.choices.clone();
                continue;
            }
        }
        i += 1;
    }
    // trailing decisions after the failure point do not matter: keep what the run recorded
    let info = json!({
        "probes": probes,
        "workload_shrink_steps": shrink_steps,
        "original_calls": sc0.total_calls(),
        "minimised_calls": sc.total_calls(),
        "original_schedule_len": schedule0.len(),
        "minimised_schedule_len": schedule.len(),
        "original_context_switches": count_switches(schedule0),
        "minimised_context_switches": count_switches(&schedule),
    });
    (sc, schedule, info)
}

fn write_replay(path: &str, base_seed: u64, run_index: u64, sc: &Scenario, schedule: &[u8], sig: &str, detail: &str, eh: u64, min_info: Value) {
    let v = json!({
        "property": PROP,
        "engine": "sim_sched (shuttle 0.9.3 runtime + harness scheduler)",
        "base_seed": base_seed,
        "run_index": run_index,
        "run_seed": rng::mix(base_seed, simcore::stage_domain(PROP), run_index),
        "scenario": sc.to_json(),
        "schedule": choices_json(schedule),
        "schedule_note": "task ids chosen at successive scheduling points: 0 = main task, 1.. = clients in spawn order",
        "signature": sig,
        "detail": detail,
        "event_hash": format!("{eh:016x}"),
        "minimisation": min_info,
    });
    simcore::write_json_atomic(path, &v);
}

fn do_replay(path: &str) -> i32 {
    let v = simcore::read_json(path);
    let sc = Arc::new(Scenario::from_json(&v["scenario"]).unwrap_or_else(|| harness_error("replay file: bad scenario")));
    let schedule: Vec<u8> = v["schedule"]
        .as_array()
        .unwrap_or_else(|| harness_error("replay file: bad schedule"))
        .iter()
        .map(|x| x.as_u64().unwrap_or(0) as u8)
        .collect();
    let want_sig = v["signature"].as_str().unwrap_or("");
    let want_hash = v["event_hash"].as_str().unwrap_or("");
    let (out, verdict) = if v["schedule_from_seed"].as_bool() == Some(true) {
        // crash replays carry no recorded decisions: re-draw them exactly as the batch did
        let p = plan(v["run_seed"].as_u64().unwrap_or(0));
        let out = execute(&p.scenario, p.mode.clone(), p.sched_seed);
        let v = judge(&p.scenario, &out);
        (out, v)
    } else {
        replay_exec(&sc, &schedule)
    };
    let eh = format!("{:016x}", event_hash(&out));
    match verdict {
        Verdict::Violated(sig, detail) => {
            println!("replayed: signature={sig}");
            println!("detail: {detail}");
            println!("schedule: {:?}", out.trace.choices);
            for r in &out.trace.history {
                println!(
                    "  [{:>3}..{:>3}] task {} {:?} {:?} -> {:?}",
                    r.invoke, r.ret, r.task, r.phase, r.call, r.res
                );
            }
            if sig == want_sig && (eh == want_hash || want_hash.is_empty()) {
                println!("VIOLATION property={PROP} replay={path}");
                1
            } else {
                println!("HARNESS-ERROR: replay diverged (signature {sig} vs {want_sig}, event hash {eh} vs {want_hash})");
                2
            }
        }
        Verdict::Held => {
            println!("replay of {path}: property held (recorded signature {want_sig}); the tree no longer fails this trace");
            0
        }
        Verdict::Harness(m) => {
            println!("HARNESS-ERROR: {m}");
            2
        }
    }
}

fn main() {
    let args = Args::from_env();
    simcore::panics::install_hook();
    if std::env::var_os("VERIF_DEBUG_PANICS").is_none() {
        // shuttle reports every task panic with eprintln!; on a tree that violates the property
        // that is one line per failing run. Our own reports go to stdout.
        unsafe {
            let fd = libc::open(b"/dev/null\0".as_ptr() as *const libc::c_char, libc::O_WRONLY);
            if fd >= 0 {
                libc::dup2(fd, 2);
                libc::close(fd);
            }
        }
    }
    let prop = args.positional(0).unwrap_or(PROP);
    if prop != PROP {
        harness_error(&format!("sim_sched serves {PROP} only, got {prop}"));
    }
    let base_seed = args.num("--seed").unwrap_or_else(simcore::seed_from_env);
    let emit = |idx: u64, sig: &str| -> String {
        let run_seed = rng::mix(base_seed, simcore::stage_domain(PROP), idx);
        let p = plan(run_seed);
        // no execution here: record the scenario and the scheduling policy; the replay re-draws
        // the same decisions from (mode, sched_seed)
        let path = simcore::replay_path(PROP, base_seed, idx);
        simcore::write_json_atomic(
            &path,
            &json!({"property": PROP, "profile": simcore::profile_name(), "engine": "sim_sched (shuttle 0.9.3 runtime + harness scheduler)", "base_seed": base_seed, "run_index": idx,
                    "run_seed": run_seed, "scenario": p.scenario.to_json(), "schedule": [], "schedule_from_seed": true,
                    "signature": sig, "event_hash": "",
                    "detail": "the process died inside a library call while executing this scenario (not minimised)"}),
        );
        path
    };
    if let simcore::isolate::Supervised::Done(rc) = simcore::isolate::supervise(PROP, &args, emit) {
        std::process::exit(rc);
    }
    if let Some(path) = args.value("--replay") {
        std::process::exit(do_replay(path));
    }
    if let Some(lo) = args.num("--only-block") {
        // debugging aid: execute one block of 256 runs exactly as the batch does
        let plans: Arc<Vec<Plan>> = Arc::new((lo..lo + 256).map(|i| plan(rng::mix(base_seed, simcore::stage_domain(PROP), i))).collect());
        let outs = exec::execute_block(&plans);
        for (k, out) in outs.iter().enumerate() {
            let v = judge(&plans[k].scenario, out);
            if v != Verdict::Held {
                println!("run {}: {:?} (panic {:?})", lo + k as u64, v, out.panic.as_ref().map(|p| (&p.file, p.line)));
            }
        }
        return;
    }
    if let Some(idx) = args.num("--only") {
        // debugging aid: execute one run index of the batch and print what happened
        let run_seed = rng::mix(base_seed, simcore::stage_domain(PROP), idx);
        let p = plan(run_seed);
        let out = execute(&p.scenario, p.mode.clone(), p.sched_seed);
        println!("scenario: {}", p.scenario.to_json());
        println!("mode: {:?} steps={} choices={:?}", p.mode, out.trace.step, &out.trace.choices[..out.trace.choices.len().min(200)]);
        for r in out.trace.history.iter().take(40) {
            println!("  [{:>4}..{:>4}] task {} {:?} {:?} -> {:?}", r.invoke, r.ret, r.task, r.phase, r.call, r.res);
        }
        println!("panic: {:?}", out.panic);
        println!("verdict: {:?}", judge(&p.scenario, &out));
        return;
    }
    let tier = simcore::tier_from(&args);
    let workers = args.num("--workers").map(|w| w as usize).unwrap_or_else(simcore::par::workers_from_env);
    let runs = args.num("--runs").unwrap_or(match tier {
        Tier::Quick => 1_000_000 / if simcore::debug_stage() { 2 } else { 1 },
        Tier::Thorough => 50_000_000 / if simcore::debug_stage() { 10 } else { 1 },
    });
    let det_n = match tier {
        Tier::Quick => 200.min(runs),
        Tier::Thorough => 2000.min(runs),
    };
    let digest_only = args.flag("--digest");
    println!("sim_sched property={PROP} tier={} VERIF_SEED={base_seed} runs={runs} workers={workers}{}", tier.name(), if simcore::debug_stage() { " stage=debug-profile" } else { "" });
    let t0 = std::time::Instant::now();
    // watchdog: the shuttle build models Mutex and AtomicUsize only; a blocking primitive outside
    // that model (a std RwLock, Condvar, ...) would park the one OS thread hosting the coroutines.
    // No progress for 20 s is a harness error (exit 2), never a verdict.
    static PROGRESS: std::sync::atomic::AtomicU64 = std::sync::atomic::AtomicU64::new(0);
    std::thread::spawn(|| {
        let mut last = 0u64;
        let mut idle = 0u32;
        loop {
            std::thread::sleep(std::time::Duration::from_secs(1));
            let now = PROGRESS.load(std::sync::atomic::Ordering::Relaxed);
            if now == u64::MAX {
                return;
            }
            if now == last {
                idle += 1;
                if idle >= 20 {
                    println!("HARNESS-ERROR: no simulated run completed for 20 s: SourceView probably blocks on a primitive outside the shuttle model (extend the cfg(sourcemap_verif) hook); the Miri engine runs real std and still applies");
                    std::process::exit(2);
                }
            } else {
                idle = 0;
                last = now;
            }
        }
    });
    let accs = simcore::par::run_batch_blocks(
        runs,
        workers,
        if simcore::isolate::tracing() { 1 } else { 256 },
        |_| Acc::default(),
        |acc: &mut Acc, lo, hi, _stop: &AtomicBool| {
            block(acc, base_seed, lo, hi, det_n, 3);
            PROGRESS.fetch_add(1, std::sync::atomic::Ordering::Relaxed);
        },
    );
    PROGRESS.store(u64::MAX, std::sync::atomic::Ordering::Relaxed);
    let mut acc = merge(accs);
    let wall = t0.elapsed().as_secs_f64();
    if digest_only {
        println!("DIGEST {:016x} runs={} violations={}", acc.digest, acc.runs, acc.violations.values().map(|v| v.1).sum::<u64>());
        return;
    }
    if !acc.det_mismatch.is_empty() {
        harness_error(&format!("determinism self-test failed for runs {:?}", &acc.det_mismatch[..acc.det_mismatch.len().min(10)]));
    }
    if !acc.harness.is_empty() && acc.violations.is_empty() {
        harness_error(&acc.harness.join(" | "));
    }
    if !acc.harness.is_empty() {
        // real violations are reported below; harness trouble in other runs of the same batch is
        // most likely fallout of the library panics and is only noted
        println!("note: {} run(s) ended in a harness-level error (first: {})", acc.harness.len(), acc.harness[0]);
    }

    // violations: known findings vs new ones
    let findings = Findings::load(&format!("{}/KNOWN_FINDINGS.txt", simcore::verif_dir())).unwrap_or_else(|e| harness_error(&e));
    let mut new_violations = Vec::new();
    let mut known_lines = Vec::new();
    for (sig, (idx, cnt, detail)) in &acc.violations {
        if let Some(desc) = findings.lookup(PROP, sig) {
            known_lines.push(format!("KNOWN-FINDING: property={PROP} sig={sig} runs={cnt} first_run={idx} {desc}"));
        } else {
            new_violations.push((sig.clone(), *idx, *cnt, detail.clone()));
        }
    }
    for l in &known_lines {
        println!("{l}");
    }
    let mut reported = Vec::new();
    for (sig, idx, cnt, detail) in new_violations.iter().take(4) {
        let run_seed = rng::mix(base_seed, simcore::stage_domain(PROP), *idx);
        let p = plan(run_seed);
        let out = execute(&p.scenario, p.mode.clone(), p.sched_seed);
        let (msc, msched, info) = minimise(&p.scenario, &out.trace.choices, sig, run_seed);
        let (mout, mv) = replay_exec(&msc, &msched);
        let (fsc, fsched, fout, fdetail, info) = if sig_of(&mv) == Some(sig.as_str()) {
            let d = match &mv {
                Verdict::Violated(_, d) => d.clone(),
                _ => detail.clone(),
            };
            (msc, mout.trace.choices.clone(), mout, d, info)
        } else {
            // minimisation result did not reproduce (should not happen): fall back to the original
            let (o, _) = replay_exec(&p.scenario, &out.trace.choices);
            (p.scenario.clone(), o.trace.choices.clone(), o, detail.clone(), json!({"note": "minimised trace did not reproduce; original kept"}))
        };
        let _ = fsched;
        let path = simcore::replay_path(PROP, base_seed, *idx);
        write_replay(&path, base_seed, *idx, &fsc, &fout.trace.choices, sig, &fdetail, event_hash(&fout), info);
        // verify the replay file in a fresh process before reporting it
        let exe = std::env::current_exe().unwrap_or_else(|e| harness_error(&format!("current_exe: {e}")));
        let st = std::process::Command::new(exe)
            .args([PROP, "--replay", &path])
            .stdout(std::process::Stdio::null())
            .stderr(std::process::Stdio::null())
            .status()
            .unwrap_or_else(|e| harness_error(&format!("spawn replay: {e}")));
        if st.code() != Some(1) {
            harness_error(&format!("replay file {path} did not reproduce in a fresh process (exit {:?})", st.code()));
        }
        println!("violation: signature={sig} runs={cnt} first_run={idx} :: {fdetail}");
        println!("VIOLATION property={PROP} replay={path}");
        reported.push(json!({"signature": sig, "runs": cnt, "first_run": idx, "replay": path, "detail": fdetail}));
    }

    // reach probes (thorough): a blind check must not pass silently
    let mut probe_fail = Vec::new();
    if tier == Tier::Thorough || runs >= 100_000 {
        if acc.overlap_runs == 0 {
            probe_fail.push("no run had overlapping calls");
        }
        if acc.finisher_overlap_runs == 0 {
            probe_fail.push("no run overlapped an index-completing call with another call");
        }
        if acc.mode_counts.len() < 4 {
            probe_fail.push("not all scheduling modes were used");
        }
    }

    let distinct_all = acc.distinct_all.len();
    let distinct_nt = acc.distinct_nontrivial.len();
    let distinct_sc = acc.distinct_scenarios.len();
    let total_violating: u64 = acc.violations.values().map(|v| v.1).sum();
    let ev = json!({
        "property_id": PROP,
        "tier": tier.name(),
        "seed": base_seed,
        "level": "exploration",
        "wall_s": wall,
        "violations": reported.len(),
        "coverage": {
            "evaluations": acc.runs,
            "distinct_nontrivial": distinct_nt,
            "rule": "one evaluation = one simulated execution of a generated scenario (text, pre-calls, 2..4 client tasks x 1..3 calls, calls by the main task meanwhile, fixed post-phase) under one seeded schedule; distinct = distinct (scenario, sequence of scheduling decisions) pairs by 64-bit hash; non-trivial = at least two calls of different tasks overlapped in simulated time (a genuine interleaving, not a serial execution)",
            "samples": acc.samples.iter().map(|s| s.1.clone()).collect::<Vec<_>>(),
            "distinct_scenario_schedule_pairs": distinct_all,
            "distinct_scenarios": distinct_sc,
            "runs_with_overlapping_calls": acc.overlap_runs,
            "runs_overlapping_an_index_completing_call": acc.finisher_overlap_runs,
            "simulated_time": {"unit": "scheduling decisions (the crate has no clock or timer; no property here depends on time)", "total_steps": acc.steps, "max_steps_in_a_run": acc.max_steps_seen, "step_bound": exec::MAX_STEPS},
            "faults_injected": {"preemption (switch away from a runnable task at a Mutex/atomic operation)": acc.preemptions},
            "scheduling_modes": acc.mode_counts,
            "client_tasks_per_run": acc.thread_counts.iter().map(|(k, v)| (k.to_string(), *v)).collect::<BTreeMap<_, _>>(),
            "lines_per_text": acc.text_lines.iter().map(|(k, v)| (k.to_string(), *v)).collect::<BTreeMap<_, _>>(),
            "calls_by_kind": acc.call_counts,
            "runs_per_hour": if wall > 0.0 { (acc.runs as f64 / wall * 3600.0) as u64 } else { 0 },
            "determinism_selftest": {"runs_executed_twice": acc.det_checked, "mismatches": 0, "batch_digest": format!("{:016x}", acc.digest)},
            "violating_runs_total": total_violating,
            "known_findings_hit": known_lines,
            "reported": reported,
            "real_vs_stub": {
                "real": ["sourcemap::SourceView (src/sourceview.rs from /repo's working tree, built with --cfg sourcemap_verif)"],
                "stub": ["std::sync::Mutex and AtomicUsize inside SourceView -> shuttle::sync (sequentially consistent model)", "OS threads -> shuttle coroutines scheduled by the harness's SimScheduler"]
            },
        },
        "assumptions": [
            "shuttle models every atomic access as sequentially consistent; the only unlocked access in SourceView is one Relaxed load, for which a stale value equals an earlier scheduling of the load (the Miri engine in the thorough tier runs the real std primitives)",
            "scheduling points are exactly the Mutex and atomic operations of the hooked module; code between two of them is atomic in the simulation",
            "sampled, not exhaustive: a clean batch is evidence, not proof"
        ],
    });
    let ev_path = simcore::evidence_path(PROP);
    simcore::write_json_atomic(&ev_path, &ev);
    println!(
        "runs={} steps={} distinct={} nontrivial={} overlap_runs={} finisher_overlap={} violating_runs={} wall={:.1}s digest={:016x}",
        acc.runs, acc.steps, distinct_all, distinct_nt, acc.overlap_runs, acc.finisher_overlap_runs, total_violating, wall, acc.digest
    );
    if !reported.is_empty() {
        std::process::exit(1);
    }
    if new_violations.len() > reported.len() {
        std::process::exit(1);
    }
    if !probe_fail.is_empty() {
        harness_error(&format!("workload does not reach: {}", probe_fail.join("; ")));
    }
}
