//! C05 post-decode workload: every read-only query, serialisation, rewriting and flattening
//! the property names, with seeded order and arguments. Nothing is asserted about *what* the
//! calls return (C05 does not say what a damaged document decodes to); the monitors around
//! this code decide. `API` names the library call in flight for attribution.

use simcore::hash::H64;
use simcore::rng::Rng;
use sourcemap::{DecodedMap, RewriteOptions, SourceMap, SourceMapHermes, SourceMapIndex, SourceView, Token};
use std::collections::BTreeMap;

thread_local! {
    /// debugging aid (VERIF_DEBUG_TIMES): wall time per library call name
    pub static TIMES: std::cell::RefCell<Option<(std::time::Instant, BTreeMap<&'static str, f64>)>> = const { std::cell::RefCell::new(None) };
}

#[inline]
fn api(name: &'static str) {
    let prev = crate::alloc::MARK.with(|a| a.replace(name));
    TIMES.with(|t| {
        if let Some((t0, m)) = t.borrow_mut().as_mut() {
            let now = std::time::Instant::now();
            *m.entry(prev).or_default() += now.duration_since(*t0).as_secs_f64();
            *t0 = now;
        }
    });
}

pub fn current_api() -> &'static str {
    crate::alloc::MARK.with(|a| a.get())
}

pub struct Ctx<'a> {
    pub rng: Rng,
    pub digest: H64,
    pub calls: BTreeMap<&'static str, u64>,
    pub script_text: &'a str,
    /// (kind, message) of a non-panic violation found by the workload itself
    pub soft_violation: Option<(String, String)>,
    /// every distinct non-panic violation of the run (the first one is also in `soft_violation`)
    pub soft_all: Vec<(String, String)>,
    pub depth: u32,
    pub reserialised: u64,
    pub errors: BTreeMap<&'static str, u64>,
}

impl<'a> Ctx<'a> {
    pub fn new(seed: u64, script_text: &'a str) -> Ctx<'a> {
        Ctx { rng: Rng::new(seed), digest: H64::new(), calls: BTreeMap::new(), script_text, soft_violation: None, soft_all: Vec::new(), depth: 0, reserialised: 0, errors: BTreeMap::new() }
    }
    #[inline]
    pub fn call(&mut self, name: &'static str) {
        api(name);
        *self.calls.entry(name).or_default() += 1;
    }
    pub fn note_err(&mut self, e: &sourcemap::Error) {
        *self.errors.entry(error_class(e)).or_default() += 1;
        // errors are values the caller formats and inspects
        self.call("Error Display/Debug/source");
        let a = format!("{e}");
        let b = format!("{e:?}");
        let c = std::error::Error::source(e).map(|s| s.to_string().len()).unwrap_or(0);
        self.digest.u64((a.len() + b.len() + c) as u64);
    }
    fn note_str(&mut self, s: Option<&str>) {
        match s {
            Some(s) => {
                self.digest.u64(1);
                self.digest.u64(s.len() as u64)
            }
            None => self.digest.u64(0),
        }
    }
}

const NAMES: [&str; 18] = ["function", "a", "foo", "x", "", "1abc", "é", "alert", "$", "_a$1", "a\u{200d}b", "\u{200d}a", "𝒳y", "a١", "١a", "日本", "$_𝒳\u{200d}é", "aé"];
/// strip_prefixes tables shared by the regular, Hermes and index rewrites
const PREFIXES: [&[&str]; 18] = [
    &[],
    &["~"],
    &["a"],
    &["/abs/", "http://h/", "~"],
    &["root/"],
    &["", "~"],
    &["é"],
    &["src", "lib/"],
    &["/srv/app"],
    &["/srv/app/", "~"],
    &["/srv/app/src/é.js"],
    &["C:\\p\\", "/"],
    &["C:/p/"],
    &["C:/p/q/b.js", "~"],
    &["C:\\p\\q\\b.js"],
    &["C:/p/a.js/"],
    &["C:\\p", "C:/p"],
    &["c:/P/", "\\\\srv\\share"],
];
const POS_EXTREMES: [u32; 5] = [0, 1, 1 << 31, u32::MAX - 1, u32::MAX];

fn token_touch(cx: &mut Ctx, t: &Token) {
    cx.call("Token accessors");
    let d = &mut cx.digest;
    d.u64(t.get_dst_line() as u64);
    d.u64(t.get_dst_col() as u64);
    d.u64(t.get_src_line() as u64);
    d.u64(t.get_src_col() as u64);
    d.u64(t.get_src_id() as u64);
    d.u64(t.get_name_id() as u64);
    d.u64(t.is_range() as u64);
    d.u64(t.has_source() as u64);
    d.u64(t.has_name() as u64);
    let _ = t.get_dst();
    let _ = t.get_src();
    let _ = t.get_raw_token();
    let s = t.get_source();
    cx.note_str(s);
    let n = t.get_name();
    cx.note_str(n);
    let tup = t.to_tuple();
    cx.digest.u64(tup.1 as u64);
    cx.call("Token::get_source_view");
    let sv = t.get_source_view();
    cx.digest.u64(sv.is_some() as u64);
    cx.call("Token::sourcemap");
    cx.digest.u64(t.sourcemap().get_token_count() as u64);
    if let Some(sv) = sv {
        // what a symbolicator does next: fetch the original line and a window of it
        cx.call("SourceView::get_line (embedded contents)");
        let l = sv.get_line(t.get_src_line());
        cx.note_str(l);
        cx.call("SourceView::get_line_slice (embedded contents)");
        let s1 = sv.get_line_slice(t.get_src_line(), t.get_src_col(), 10);
        cx.note_str(s1);
        let s2 = sv.get_line_slice(t.get_src_line(), t.get_src_col(), u32::MAX);
        cx.note_str(s2);
        if t.get_dst_col() % 7 == 0 {
            cx.call("SourceView::line_count (embedded contents)");
            cx.digest.u64(sv.line_count() as u64);
            cx.call("SourceView::lines (embedded contents)");
            cx.digest.u64(sv.lines().map(str::len).sum::<usize>() as u64);
            if t.get_dst_col() % 5 == 0 && sv.source().len() < 4096 {
                iter_protocol(cx, "Lines (Iterator protocol)", sv.line_count(), &|| sv.lines());
            }
            cx.call("SourceView::sourcemap_reference (embedded contents)");
            cx.digest.u64(sv.sourcemap_reference().map(|r| r.is_some()).unwrap_or(false) as u64);
        }
    }
    cx.call("Token formatters");
    let a = format!("{t}");
    let b = format!("{t:#}");
    let c = format!("{t:?}");
    cx.digest.u64((a.len() + b.len() + c.len()) as u64);
}

fn sample_indices(rng: &mut Rng, n: usize, cap: usize) -> Vec<usize> {
    if n <= cap {
        (0..n).collect()
    } else {
        let mut v: Vec<usize> = (0..cap / 4).collect();
        v.extend((n - cap / 4)..n);
        for _ in 0..cap / 2 {
            v.push(rng.below_usize(n));
        }
        v
    }
}

fn positions_around(t: &Token) -> Vec<(u32, u32)> {
    let (l, c) = t.get_dst();
    vec![(l, c), (l, c.wrapping_sub(1)), (l, c.wrapping_add(1)), (l.wrapping_add(1), 0), (l.wrapping_sub(1), u32::MAX), (l, u32::MAX)]
}

fn random_pos(rng: &mut Rng) -> (u32, u32) {
    let f = |rng: &mut Rng| {
        if rng.chance(1, 5) {
            *rng.pick(&POS_EXTREMES[..])
        } else {
            rng.below(64) as u32
        }
    };
    (f(rng), f(rng))
}

fn views<'v>(cx: &mut Ctx, sm: &'v SourceMap, extra: &'v [SourceView]) -> Vec<&'v SourceView> {
    let mut v: Vec<&SourceView> = extra.iter().collect();
    cx.call("SourceMap::get_source_view");
    for i in 0..sm.get_source_count().min(4) {
        if let Some(sv) = sm.get_source_view(i) {
            v.push(sv);
        }
    }
    v
}

pub fn make_views(cx: &mut Ctx) -> Vec<SourceView> {
    let mut v = vec![SourceView::new(cx.script_text.into())];
    let seeded = match cx.rng.below(5) {
        0 => "function foo(a){return a}\nvar x=function(){};foo(1)".to_string(),
        1 => String::new(),
        2 => "👌 function é(){}\r\n\r".to_string(),
        3 => "function $_𝒳\u{200d}é(){};function 日本(a١){return _a$1}".to_string(),
        _ => "function a(){function b(){}}".repeat(3),
    };
    v.push(SourceView::from_string(seeded));
    v
}

/// The Iterator protocol on one of the library's iterators: what a caller may legally do with
/// any `Iterator` (keep calling `next` after `None`, `nth`/`skip`/`step_by` from any state,
/// `size_hint`, `last`, `count`), from a fresh iterator each time.
fn iter_protocol<I: Iterator>(cx: &mut Ctx, name: &'static str, len: usize, mk: &dyn Fn() -> I) {
    cx.call(name);
    let k = if len == 0 { 0 } else { cx.rng.below_usize(len + 2) };
    let step = 1 + cx.rng.below_usize(4);
    // exhausted, then used again
    let mut it = mk();
    let mut n = 0usize;
    while it.next().is_some() {
        n += 1;
        if n > len + 8 {
            break; // an iterator longer than its collection is not this check's business
        }
    }
    cx.digest.u64(n as u64);
    cx.digest.u64(it.next().is_some() as u64);
    cx.digest.u64(it.size_hint().0 as u64);
    cx.digest.u64(it.nth(0).is_some() as u64);
    cx.digest.u64(it.nth(k).is_some() as u64);
    cx.digest.u64(it.next().is_some() as u64);
    cx.digest.u64(it.last().is_some() as u64);
    // nth from a fresh and from a partly consumed iterator, at and beyond the end
    for first in [k, len.saturating_sub(1), len, len + 1, usize::MAX >> 40] {
        let mut it = mk();
        cx.digest.u64(it.nth(first).is_some() as u64);
        cx.digest.u64(it.nth(0).is_some() as u64);
        cx.digest.u64(it.nth(k).is_some() as u64);
        let (lo, hi) = it.size_hint();
        cx.digest.u64(lo as u64);
        cx.digest.u64(hi.map(|h| h >= lo) .unwrap_or(true) as u64);
        cx.digest.u64(it.next().is_some() as u64);
    }
    cx.digest.u64(mk().skip(k).step_by(step).take(8).count() as u64);
    cx.digest.u64(mk().step_by(step).skip(k / 2).count() as u64);
    let mut it = mk();
    cx.digest.u64(it.by_ref().take(k).count() as u64);
    cx.digest.u64(it.size_hint().0 as u64);
    cx.digest.u64(it.last().is_some() as u64);
    cx.digest.u64(mk().count() as u64);
}

pub fn regular(cx: &mut Ctx, sm: &SourceMap, full: bool) {
    let mask = if full { u64::MAX } else { cx.rng.next_u64() | 1 };
    regular_pass(cx, sm, full, mask);
    // a second, sparse pass over the same map: the blocks run in a fixed order within a pass, so
    // this is what puts a later block *before* an earlier one on the same object (state a call
    // leaves behind in a lazily built index or cache must not break the calls that follow)
    if cx.depth == 0 {
        let again = cx.rng.next_u64() & cx.rng.next_u64();
        if again & 0xfff != 0 {
            regular_pass(cx, sm, false, again);
        }
    }
}

fn regular_pass(cx: &mut Ctx, sm: &SourceMap, full: bool, mask: u64) {
    let on = |bit: u32| mask & (1 << bit) != 0;
    let ntok = sm.get_token_count() as usize;
    cx.digest.u64(ntok as u64);
    if on(0) {
        cx.call("SourceMap::tokens");
        let idxs = sample_indices(&mut cx.rng, ntok, 160);
        if ntok <= 160 {
            let mut count = 0usize;
            for t in sm.tokens() {
                token_touch(cx, &t);
                count += 1;
            }
            cx.digest.u64(count as u64);
        } else {
            // big maps: iterate everything cheaply, touch a sample fully
            cx.digest.u64(sm.tokens().count() as u64);
            for i in idxs {
                cx.call("SourceMap::get_token");
                if let Some(t) = sm.get_token(i) {
                    token_touch(cx, &t);
                }
            }
        }
    }
    if on(9) {
        // comparisons between tokens (PartialEq / Ord are read-only queries too)
        let idxs = sample_indices(&mut cx.rng, ntok, 40);
        for w in idxs.windows(2) {
            cx.call("SourceMap::get_token");
            if let (Some(a), Some(b)) = (sm.get_token(w[0]), sm.get_token(w[1])) {
                cx.call("Token comparisons");
                cx.digest.u64((a == b) as u64);
                cx.digest.u64(a.cmp(&b) as i8 as u64);
                cx.digest.u64((a < b) as u64);
            }
        }
    }
    if on(1) {
        let idxs = sample_indices(&mut cx.rng, ntok, 60);
        for i in idxs {
            cx.call("SourceMap::get_token");
            if let Some(t) = sm.get_token(i) {
                for (l, c) in positions_around(&t) {
                    cx.call("SourceMap::lookup_token");
                    if let Some(h) = sm.lookup_token(l, c) {
                        cx.digest.u64(h.get_src_col() as u64);
                        cx.digest.u64(h.get_dst_col() as u64);
                    } else {
                        cx.digest.u64(0);
                    }
                }
            }
        }
        for p in [(0u32, 0u32), (u32::MAX, u32::MAX), (0, u32::MAX), (u32::MAX, 0)] {
            cx.call("SourceMap::lookup_token");
            let h = sm.lookup_token(p.0, p.1);
            cx.digest.u64(h.map(|t| t.get_src_col() as u64 + 1).unwrap_or(0));
        }
        for _ in 0..6 {
            let (l, c) = random_pos(&mut cx.rng);
            cx.call("SourceMap::lookup_token");
            let h = sm.lookup_token(l, c);
            if let Some(t) = h {
                token_touch(cx, &t);
            }
        }
    }
    if on(2) {
        for idx in [0usize, ntok.wrapping_sub(1), ntok, usize::MAX, u32::MAX as usize] {
            cx.call("SourceMap::get_token");
            cx.digest.u64(sm.get_token(idx).is_some() as u64);
        }
        let ns = sm.get_source_count();
        let nn = sm.get_name_count();
        for idx in [0u32, ns.wrapping_sub(1), ns, u32::MAX, nn, nn.wrapping_sub(1)] {
            cx.call("SourceMap::get_source");
            let s = sm.get_source(idx);
            cx.note_str(s);
            cx.call("SourceMap::get_name");
            let s = sm.get_name(idx);
            cx.note_str(s);
            cx.call("SourceMap::get_source_contents");
            let s = sm.get_source_contents(idx);
            cx.note_str(s);
            cx.call("SourceMap::get_source_view");
            cx.digest.u64(sm.get_source_view(idx).is_some() as u64);
        }
        cx.call("SourceMap scalar accessors");
        let f = sm.get_file();
        cx.note_str(f);
        let f = sm.get_source_root();
        cx.note_str(f);
        cx.digest.u64(sm.get_debug_id().is_some() as u64);
        cx.digest.u64(sm.has_names() as u64);
        cx.digest.u64(sm.ignore_list().count() as u64);
    }
    if on(3) {
        cx.call("SourceMap::sources/names/source_contents iterators");
        cx.digest.u64(sm.sources().map(str::len).sum::<usize>() as u64);
        cx.digest.u64(sm.names().map(str::len).sum::<usize>() as u64);
        cx.digest.u64(sm.source_contents().flatten().map(str::len).sum::<usize>() as u64);
    }
    if on(4) {
        for _ in 0..4 {
            let (l, c) = if ntok > 0 && cx.rng.chance(1, 2) {
                let i = cx.rng.below_usize(ntok);
                sm.get_token(i).map(|t| t.get_dst()).unwrap_or((0, 0))
            } else {
                random_pos(&mut cx.rng)
            };
            cx.call("TokenIter::seek");
            let mut it = sm.tokens();
            let found = it.seek(l, c);
            cx.digest.u64(found as u64);
            cx.digest.u64(it.take(3).count() as u64);
        }
    }
    if on(10) && ntok <= 20_000 {
        iter_protocol(cx, "TokenIter (Iterator protocol)", ntok, &|| sm.tokens());
        iter_protocol(cx, "SourceIter (Iterator protocol)", sm.get_source_count() as usize, &|| sm.sources());
        iter_protocol(cx, "NameIter (Iterator protocol)", sm.get_name_count() as usize, &|| sm.names());
        iter_protocol(cx, "SourceContentsIter (Iterator protocol)", sm.get_source_count() as usize, &|| sm.source_contents());
        iter_protocol(cx, "ignore_list (Iterator protocol)", sm.ignore_list().count(), &|| sm.ignore_list());
        // a token iterator that was positioned with seek, before, inside and behind the tokens
        for _ in 0..3 {
            let (l, c) = if ntok > 0 && cx.rng.chance(1, 2) {
                let i = cx.rng.below_usize(ntok);
                let (l, c) = sm.get_token(i).map(|t| t.get_dst()).unwrap_or((0, 0));
                (l, c.saturating_add(cx.rng.below(3) as u32))
            } else {
                random_pos(&mut cx.rng)
            };
            iter_protocol(cx, "TokenIter after seek (Iterator protocol)", ntok, &|| {
                let mut it = sm.tokens();
                it.seek(l, c);
                it
            });
        }
    }
    if on(5) && ntok <= 4000 {
        cx.call("Debug for SourceMap");
        let s = format!("{sm:?}");
        cx.digest.u64(s.len() as u64);
    }
    if on(6) && ntok >= 2 {
        // a minified text laid out from the map itself: for adjacent same-line tokens (i-1, i)
        // put the keyword `function` at the column of token i-1 and an identifier at the column
        // of token i (when there is room), then ask for that identifier at token i. This is the
        // only way the resolution's success path (and its cached same-line walk) is reached.
        for _ in 0..3 {
            let i = 1 + cx.rng.below_usize(ntok - 1);
            cx.call("SourceMap::get_token");
            if let (Some(a), Some(b)) = (sm.get_token(i - 1), sm.get_token(i)) {
                let (la, ca) = a.get_dst();
                let (lb, cb) = b.get_dst();
                if la == lb && la < 64 && cb >= ca && cb < 4096 {
                    let ident = *cx.rng.pick(&["foo", "$", "_a$1", "é", "𝒳y", "日本", "a\u{200d}b"]);
                    let mut line = String::new();
                    let mut units = 0usize;
                    let pad = *cx.rng.pick(&[" ", " ", ";", "é", "👌"]);
                    while units < ca as usize {
                        if pad == "👌" && units + 2 > ca as usize {
                            line.push(' ');
                            units += 1;
                        } else {
                            line.push_str(pad);
                            units += pad.chars().map(char::len_utf16).sum::<usize>();
                        }
                    }
                    line.push_str("function");
                    units += 8;
                    while units < cb as usize {
                        line.push(' ');
                        units += 1;
                    }
                    if units == cb as usize {
                        line.push_str(ident);
                    }
                    line.push_str("(){}");
                    let mut text = String::new();
                    for _ in 0..la {
                        text.push_str(*cx.rng.pick(&["\n", "\r\n", "x\n"]));
                    }
                    text.push_str(&line);
                    let sv = SourceView::from_string(text);
                    cx.call("SourceMap::get_original_function_name");
                    let r = sm.get_original_function_name(lb, cb, ident, &sv);
                    cx.note_str(r);
                    cx.call("SourceView::get_original_function_name");
                    let r = sv.get_original_function_name(b, ident);
                    cx.note_str(r);
                    // and a few tokens further on the same line, so that the walk-back passes here
                    if let Some(c2) = sm.get_token((i + 2).min(ntok - 1)) {
                        let r = sv.get_original_function_name(c2, ident);
                        cx.note_str(r);
                    }
                }
            }
        }
    }
    if on(6) {
        let extra = make_views(cx);
        let vs = views(cx, sm, &extra);
        let mut names: Vec<String> = NAMES.iter().map(|s| s.to_string()).collect();
        for n in sm.names().take(3) {
            names.push(n.to_string());
        }
        for sv in vs.iter().take(4) {
            for _ in 0..4 {
                let (l, c) = if ntok > 0 && cx.rng.chance(3, 4) {
                    let i = cx.rng.below_usize(ntok);
                    sm.get_token(i).map(|t| t.get_dst()).unwrap_or((0, 0))
                } else {
                    random_pos(&mut cx.rng)
                };
                let name = names[cx.rng.below_usize(names.len())].clone();
                cx.call("SourceMap::get_original_function_name");
                let r = sm.get_original_function_name(l, c, &name, sv);
                cx.note_str(r);
                cx.call("SourceMap::lookup_token");
                if let Some(t) = sm.lookup_token(l, c) {
                    cx.call("SourceView::get_original_function_name");
                    let r = sv.get_original_function_name(t, &name);
                    cx.note_str(r);
                }
            }
        }
    }
    if on(7) && cx.depth < 2 {
        let prefixes = &PREFIXES;
        let combos: Vec<(bool, bool, usize)> = if full && ntok <= 20_000 {
            let mut v = Vec::new();
            for a in [false, true] {
                for b in [false, true] {
                    for p in 0..prefixes.len() {
                        v.push((a, b, p));
                    }
                }
            }
            v
        } else {
            // a sample of the combinations (a larger one for the full workload on a large map,
            // where all 72 would cost seconds)
            (0..if full { 8 } else { 3 }).map(|_| (cx.rng.chance(1, 2), cx.rng.chance(1, 2), cx.rng.below_usize(prefixes.len()))).collect()
        };
        for (with_names, with_source_contents, p) in combos {
            let opts = RewriteOptions { with_names, with_source_contents, strip_prefixes: prefixes[p], ..Default::default() };
            cx.call("SourceMap::clone");
            let copy = sm.clone();
            cx.call("SourceMap::rewrite");
            match copy.rewrite(&opts) {
                Ok(out) => {
                    cx.digest.u64(out.get_token_count() as u64);
                    cx.depth += 2;
                    regular(cx, &out, false);
                    cx.depth -= 2;
                    serialise_regular(cx, &out, "rewritten map");
                    if cx.rng.chance(1, 3) {
                        // a second stage with other options (rewrite of a rewritten map)
                        let opts2 = RewriteOptions {
                            with_names: !with_names,
                            with_source_contents: !with_source_contents,
                            strip_prefixes: PREFIXES[cx.rng.below_usize(PREFIXES.len())],
                            ..Default::default()
                        };
                        cx.call("SourceMap::rewrite (second stage)");
                        if let Ok(out2) = out.rewrite(&opts2) {
                            cx.digest.u64(out2.get_token_count() as u64);
                            serialise_regular(cx, &out2, "twice rewritten map");
                        }
                    }
                }
                Err(_) => cx.digest.u64(0),
            }
        }
    }
    if on(8) {
        serialise_regular(cx, sm, "decoded map");
    }
}

fn max_line(sm: &SourceMap) -> u32 {
    let n = sm.get_token_count() as usize;
    if n == 0 {
        0
    } else {
        sm.get_token(n - 1).map(|t| t.get_dst_line()).unwrap_or(0)
    }
}

pub const LINE_BOUND: u32 = 100_000;

fn check_redecode(cx: &mut Ctx, bytes: &[u8], what: &str, kind: &'static str) {
    cx.call("decode_slice (of re-serialised output)");
    match sourcemap::decode_slice(bytes) {
        Ok(m) => {
            cx.reserialised += 1;
            cx.digest.u64(match m {
                DecodedMap::Regular(_) => 1,
                DecodedMap::Index(_) => 2,
                DecodedMap::Hermes(_) => 3,
            });
        }
        Err(e) => {
            {
                // class of the message: quoted strings and numbers removed, so the signature names
                // the kind of failure (e.g. "expected DebugId") and not the particular document
                let msg = e.to_string();
                let mut slug = String::new();
                let mut in_quote = false;
                for ch in msg.chars() {
                    if ch == '"' {
                        in_quote = !in_quote;
                        continue;
                    }
                    if in_quote || ch.is_ascii_digit() {
                        continue;
                    }
                    if ch.is_ascii_alphabetic() {
                        slug.push(ch);
                    } else if !slug.ends_with('-') {
                        slug.push('-');
                    }
                }
                let slug = slug.trim_matches('-').replace("-at-line-column", "");
                let _ = kind;
                let sig_all = format!("reserialised-does-not-decode:{}:{}", error_class(&e), slug);
                if !cx.soft_all.iter().any(|(s, _)| *s == sig_all) {
                    cx.soft_all.push((sig_all, format!("to_writer output of the {what} ({} bytes) does not decode again: {e}", bytes.len())));
                }
                if cx.soft_violation.is_none() {
                    cx.soft_violation = Some((
                        format!("reserialised-does-not-decode:{}:{}", error_class(&e), slug),
                        format!("to_writer output of the {what} ({} bytes) does not decode again: {e}", bytes.len()),
                    ));
                }
            }
        }
    }
}

pub fn error_class(e: &sourcemap::Error) -> &'static str {
    use sourcemap::Error::*;
    match e {
        Io(_) => "Io",
        Utf8(_) => "Utf8",
        BadJson(_) => "BadJson",
        VlqLeftover => "VlqLeftover",
        VlqNoValues => "VlqNoValues",
        VlqOverflow => "VlqOverflow",
        BadSegmentSize(_) => "BadSegmentSize",
        BadSourceReference(_) => "BadSourceReference",
        BadNameReference(_) => "BadNameReference",
        IncompatibleSourceMap => "IncompatibleSourceMap",
        InvalidDataUrl => "InvalidDataUrl",
        CannotFlatten(_) => "CannotFlatten",
        _ => "other",
    }
}

fn serialise_regular(cx: &mut Ctx, sm: &SourceMap, what: &str) {
    if max_line(sm) >= LINE_BOUND {
        return;
    }
    let mut out = Vec::new();
    cx.call("SourceMap::to_writer");
    if sm.to_writer(&mut out).is_ok() {
        cx.digest.u64(out.len() as u64);
        check_redecode(cx, &out, what, "regular");
    }
    if cx.rng.chance(1, 4) {
        cx.call("SourceMap::to_data_url");
        if let Ok(u) = sm.to_data_url() {
            cx.digest.u64(u.len() as u64);
        }
    }
}

pub fn hermes(cx: &mut Ctx, smh: &SourceMapHermes, full: bool) {
    let ntok = smh.get_token_count() as usize;
    let idxs = sample_indices(&mut cx.rng, ntok, 200);
    for i in idxs {
        cx.call("SourceMap::get_token");
        if let Some(t) = smh.get_token(i) {
            cx.call("SourceMapHermes::get_scope_for_token");
            let r = smh.get_scope_for_token(t);
            cx.note_str(r);
        }
    }
    for _ in 0..6 {
        let off = if cx.rng.chance(1, 4) { *cx.rng.pick(&POS_EXTREMES[..]) } else { cx.rng.below(200) as u32 };
        cx.call("SourceMapHermes::get_original_function_name");
        let r = smh.get_original_function_name(off);
        cx.note_str(r);
    }
    cx.call("SourceMapHermes::get_original_function_name");
    let r = smh.get_original_function_name(u32::MAX);
    cx.note_str(r);
    regular(cx, smh, full);
    if max_line(smh) < LINE_BOUND {
        let mut out = Vec::new();
        cx.call("SourceMapHermes::to_writer");
        if smh.to_writer(&mut out).is_ok() {
            check_redecode(cx, &out, "decoded Hermes map", "hermes");
        }
    }
    if cx.depth < 2 {
        for _ in 0..2 {
            let opts = RewriteOptions { with_names: cx.rng.chance(1, 2), with_source_contents: cx.rng.chance(1, 2), strip_prefixes: PREFIXES[cx.rng.below_usize(PREFIXES.len())], ..Default::default() };
            cx.call("SourceMapHermes::clone");
            let copy = smh.clone();
            cx.call("SourceMapHermes::rewrite");
            if let Ok(out) = copy.rewrite(&opts) {
                cx.depth += 2;
                let n = out.get_token_count() as usize;
                for i in sample_indices(&mut cx.rng, n, 40) {
                    if let Some(t) = out.get_token(i) {
                        cx.call("SourceMapHermes::get_scope_for_token");
                        let r = out.get_scope_for_token(t);
                        cx.note_str(r);
                    }
                }
                for _ in 0..4 {
                    let off = if cx.rng.chance(1, 4) { *cx.rng.pick(&POS_EXTREMES[..]) } else { cx.rng.below(200) as u32 };
                    cx.call("SourceMapHermes::get_original_function_name");
                    let r = out.get_original_function_name(off);
                    cx.note_str(r);
                }
                regular(cx, &out, false);
                if max_line(&out) < LINE_BOUND {
                    let mut buf = Vec::new();
                    cx.call("SourceMapHermes::to_writer");
                    if out.to_writer(&mut buf).is_ok() {
                        check_redecode(cx, &buf, "rewritten Hermes map", "hermes");
                    }
                }
                cx.depth -= 2;
            }
        }
    }
}

fn index_serialisable(smi: &SourceMapIndex) -> bool {
    smi.sections().all(|s| match s.get_sourcemap() {
        None => true,
        Some(DecodedMap::Regular(m)) => max_line(m) < LINE_BOUND,
        Some(DecodedMap::Hermes(m)) => max_line(m) < LINE_BOUND,
        Some(DecodedMap::Index(i)) => index_serialisable(i),
    })
}

pub fn index(cx: &mut Ctx, smi: &SourceMapIndex, full: bool) {
    cx.call("SourceMapIndex accessors");
    let f = smi.get_file();
    cx.note_str(f);
    let n = smi.get_section_count();
    cx.digest.u64(n as u64);
    cx.digest.u64(smi.is_for_ram_bundle() as u64);
    cx.digest.u64(smi.x_facebook_offsets().map(|x| x.len()).unwrap_or(0) as u64);
    cx.digest.u64(smi.x_metro_module_paths().map(|x| x.len()).unwrap_or(0) as u64);
    for idx in [0u32, n.wrapping_sub(1), n, u32::MAX] {
        cx.call("SourceMapIndex::get_section");
        cx.digest.u64(smi.get_section(idx).is_some() as u64);
    }
    if n <= 5000 {
        iter_protocol(cx, "SourceMapSectionIter (Iterator protocol)", n as usize, &|| smi.sections());
    }
    cx.call("SourceMapIndex::sections");
    let mut positions: Vec<(u32, u32)> = Vec::new();
    for s in smi.sections() {
        let (l, c) = s.get_offset();
        cx.digest.u64(s.get_offset_line() as u64 ^ s.get_offset_col() as u64);
        let u = s.get_url();
        cx.note_str(u);
        positions.extend([(l, c), (l, c.wrapping_sub(1)), (l, c.wrapping_add(1)), (l.wrapping_add(1), 0), (l.wrapping_sub(1), u32::MAX)]);
        if let Some(m) = s.get_sourcemap() {
            if cx.depth < 3 && cx.rng.chance(1, 2) {
                cx.depth += 1;
                decoded(cx, m, false);
                cx.depth -= 1;
            }
            // positions of nested tokens, shifted by the offset (regular and Hermes sections
            // directly, nested index sections one level down)
            let mut shifted = |sm: &SourceMap, l: u32, c: u32, positions: &mut Vec<(u32, u32)>| {
                for t in sm.tokens().take(6) {
                    let (tl, tc) = t.get_dst();
                    positions.push((tl.wrapping_add(l), if tl == 0 { tc.wrapping_add(c) } else { tc }));
                }
            };
            match m {
                DecodedMap::Regular(sm) => shifted(sm, l, c, &mut positions),
                DecodedMap::Hermes(smh) => shifted(smh, l, c, &mut positions),
                DecodedMap::Index(inner) => {
                    for s2 in inner.sections().take(3) {
                        let (l2, c2) = s2.get_offset();
                        let (ll, cc) = (l.wrapping_add(l2), if l2 == 0 { c.wrapping_add(c2) } else { c2 });
                        positions.push((ll, cc));
                        match s2.get_sourcemap() {
                            Some(DecodedMap::Regular(sm)) => shifted(sm, ll, cc, &mut positions),
                            Some(DecodedMap::Hermes(smh)) => shifted(smh, ll, cc, &mut positions),
                            _ => {}
                        }
                    }
                }
            }
        }
    }
    positions.extend([(0, 0), (u32::MAX, u32::MAX), (0, u32::MAX), (u32::MAX, 0)]);
    for _ in 0..6 {
        positions.push(random_pos(&mut cx.rng));
    }
    let extra = make_views(cx);
    for (l, c) in positions {
        cx.call("SourceMapIndex::lookup_token");
        if let Some(t) = smi.lookup_token(l, c) {
            token_touch(cx, &t);
        } else {
            cx.digest.u64(0);
        }
        if cx.rng.chance(1, 4) {
            let name = *cx.rng.pick(&NAMES[..]);
            cx.call("SourceMapIndex::get_original_function_name");
            let r = smi.get_original_function_name(l, c, name, &extra[cx.rng.below_usize(extra.len())]);
            cx.note_str(r);
        }
    }
    cx.call("Debug for SourceMapIndex");
    let s = format!("{smi:?}");
    cx.digest.u64(s.len() as u64);
    cx.call("SourceMapIndex::flatten");
    match smi.flatten() {
        Ok(flat) => {
            cx.digest.u64(flat.get_token_count() as u64);
            cx.depth += 1;
            regular(cx, &flat, full);
            cx.depth -= 1;
        }
        Err(e) => cx.note_err(&e),
    }
    if cx.depth < 2 {
        let opts = RewriteOptions { with_names: cx.rng.chance(1, 2), with_source_contents: cx.rng.chance(1, 2), strip_prefixes: PREFIXES[cx.rng.below_usize(PREFIXES.len())], ..Default::default() };
        cx.call("SourceMapIndex::clone");
        let copy = smi.clone();
        cx.call("SourceMapIndex::flatten_and_rewrite");
        match copy.flatten_and_rewrite(&opts) {
            Ok(out) => {
                cx.digest.u64(out.get_token_count() as u64);
                cx.depth += 2;
                regular(cx, &out, false);
                cx.depth -= 2;
                serialise_regular(cx, &out, "flattened and rewritten map");
            }
            Err(e) => cx.note_err(&e),
        }
    }
    if index_serialisable(smi) {
        let mut out = Vec::new();
        cx.call("SourceMapIndex::to_writer");
        if smi.to_writer(&mut out).is_ok() {
            check_redecode(cx, &out, "decoded index map", "index");
        }
    }
}

pub fn decoded(cx: &mut Ctx, m: &DecodedMap, full: bool) {
    for _ in 0..4 {
        let (l, c) = random_pos(&mut cx.rng);
        cx.call("DecodedMap::lookup_token");
        let t = m.lookup_token(l, c);
        cx.digest.u64(t.map(|t| t.get_src_col() as u64 + 1).unwrap_or(0));
        let extra = make_views(cx);
        let name = *cx.rng.pick(&NAMES[..]);
        cx.call("DecodedMap::get_original_function_name");
        let r = m.get_original_function_name(l, c, if cx.rng.chance(1, 6) { None } else { Some(name) }, if cx.rng.chance(1, 6) { None } else { Some(&extra[0]) });
        cx.note_str(r);
    }
    match m {
        DecodedMap::Regular(sm) => regular(cx, sm, full),
        DecodedMap::Hermes(smh) => hermes(cx, smh, full),
        DecodedMap::Index(smi) => index(cx, smi, full),
    }
    let serialisable = match m {
        DecodedMap::Regular(sm) => max_line(sm) < LINE_BOUND,
        DecodedMap::Hermes(smh) => max_line(smh) < LINE_BOUND,
        DecodedMap::Index(smi) => index_serialisable(smi),
    };
    if serialisable && cx.rng.chance(1, 3) {
        let mut out = Vec::new();
        cx.call("DecodedMap::to_writer");
        if m.to_writer(&mut out).is_ok() {
            check_redecode(cx, &out, "decoded map (DecodedMap::to_writer)", "decoded");
        }
    }
    cx.call("Debug for DecodedMap");
    if cx.depth == 0 && cx.rng.chance(1, 4) {
        let s = format!("{m:?}");
        cx.digest.u64(s.len() as u64);
    }
}
