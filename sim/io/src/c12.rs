//! C12 — reader, slice and data-URL decoding agree however the stream is chunked.
//!
//! Real code: decode / DecodedMap::from_reader / SourceMap|SourceMapIndex|SourceMapHermes::
//! from_reader / is_sourcemap reading from a SimReader, and their slice counterparts plus
//! decode_data_url reading the delivered bytes D'. Oracles: relative (reader path on D' equals
//! slice path on D') and absolute (a small model of the XSSI header rule).

use crate::dump;
use crate::simreader::*;
use crate::zoo::{self, Fixtures};
use serde_json::{json, Value};
use simcore::hash::{hex, unhex, KeySet, H64};
use simcore::panics;
use simcore::rng::{self, Rng};
use simcore::{harness_error, Args, Tier, ViolationTable};
use sourcemap::{DecodedMap, SourceMap, SourceMapHermes, SourceMapIndex};
use std::collections::BTreeMap;
use std::panic::{catch_unwind, AssertUnwindSafe};
use std::sync::atomic::AtomicBool;

const PROP: &str = "C12";

#[derive(Clone, Copy, Debug, PartialEq, Eq, PartialOrd, Ord)]
pub enum Entry {
    Decode,
    DecodedFromReader,
    Regular,
    Index,
    Hermes,
    Detect,
    DataUrl,
}

impl Entry {
    const ALL: [Entry; 7] = [Entry::Decode, Entry::DecodedFromReader, Entry::Regular, Entry::Index, Entry::Hermes, Entry::Detect, Entry::DataUrl];
    pub fn name(self) -> &'static str {
        match self {
            Entry::Decode => "decode",
            Entry::DecodedFromReader => "DecodedMap::from_reader",
            Entry::Regular => "SourceMap::from_reader",
            Entry::Index => "SourceMapIndex::from_reader",
            Entry::Hermes => "SourceMapHermes::from_reader",
            Entry::Detect => "is_sourcemap",
            Entry::DataUrl => "decode_data_url",
        }
    }
    fn from_name(s: &str) -> Option<Entry> {
        Entry::ALL.iter().copied().find(|e| e.name() == s)
    }
}

#[derive(Clone, Debug, PartialEq, Eq)]
pub enum Out {
    Err,
    Map(String),
    Bool(bool),
    Panic(String),
}

impl Out {
    fn class(&self) -> &'static str {
        match self {
            Out::Err => "Err",
            Out::Map(_) => "Map",
            Out::Bool(true) => "true",
            Out::Bool(false) => "false",
            Out::Panic(_) => "Panic",
        }
    }
    fn short(&self) -> String {
        match self {
            Out::Map(d) => format!("Map({} bytes of dump, hash {:08x})", d.len(), simcore::hash::hash_str(d) as u32),
            Out::Panic(s) => format!("Panic({s})"),
            o => o.class().to_string(),
        }
    }
}

fn guard(f: impl FnOnce() -> Out) -> Out {
    panics::clear();
    match catch_unwind(AssertUnwindSafe(f)) {
        Ok(o) => o,
        Err(_) => Out::Panic(panics::take().map(|p| panics::signature(&p)).unwrap_or_else(|| "?".into())),
    }
}

fn map_out(r: sourcemap::Result<DecodedMap>) -> Out {
    match r {
        Ok(m) => {
            let mut s = String::new();
            dump::dump_decoded(&m, &mut s);
            Out::Map(s)
        }
        Err(_) => Out::Err,
    }
}

pub fn reader_side(entry: Entry, rdr: &mut SimReader) -> Out {
    reader_side_generic(entry, rdr)
}

pub fn reader_side_generic<R: std::io::Read>(entry: Entry, rdr: &mut R) -> Out {
    guard(|| match entry {
        Entry::Decode => map_out(sourcemap::decode(&mut *rdr)),
        Entry::DecodedFromReader => map_out(DecodedMap::from_reader(&mut *rdr)),
        Entry::Regular => match SourceMap::from_reader(&mut *rdr) {
            Ok(m) => {
                let mut s = String::from("REGULAR\n");
                dump::dump_regular(&m, &mut s);
                Out::Map(s)
            }
            Err(_) => Out::Err,
        },
        Entry::Index => match SourceMapIndex::from_reader(&mut *rdr) {
            Ok(m) => {
                let mut s = String::from("INDEX\n");
                dump::dump_index(&m, &mut s);
                Out::Map(s)
            }
            Err(_) => Out::Err,
        },
        Entry::Hermes => match SourceMapHermes::from_reader(&mut *rdr) {
            Ok(m) => {
                let mut s = String::from("HERMES\n");
                dump::dump_hermes(&m, &mut s);
                Out::Map(s)
            }
            Err(_) => Out::Err,
        },
        Entry::Detect => Out::Bool(sourcemap::is_sourcemap(&mut *rdr)),
        Entry::DataUrl => unreachable!(),
    })
}

pub fn slice_side(entry: Entry, bytes: &[u8]) -> Out {
    guard(|| match entry {
        Entry::Decode | Entry::DecodedFromReader | Entry::DataUrl => map_out(sourcemap::decode_slice(bytes)),
        Entry::Regular => match SourceMap::from_slice(bytes) {
            Ok(m) => {
                let mut s = String::from("REGULAR\n");
                dump::dump_regular(&m, &mut s);
                Out::Map(s)
            }
            Err(_) => Out::Err,
        },
        Entry::Index => match SourceMapIndex::from_slice(bytes) {
            Ok(m) => {
                let mut s = String::from("INDEX\n");
                dump::dump_index(&m, &mut s);
                Out::Map(s)
            }
            Err(_) => Out::Err,
        },
        Entry::Hermes => match SourceMapHermes::from_slice(bytes) {
            Ok(m) => {
                let mut s = String::from("HERMES\n");
                dump::dump_hermes(&m, &mut s);
                Out::Map(s)
            }
            Err(_) => Out::Err,
        },
        Entry::Detect => Out::Bool(sourcemap::is_sourcemap_slice(bytes)),
    })
}

/// Data-URL spellings. Variant 0 is the canonical one the property speaks of (exact preamble,
/// padded standard base64): it must decode like its payload. The others are not "a base64 data
/// URL" in that strict sense; for them the oracle only demands "an error, or the payload's map".
fn data_url(bytes: &[u8], variant: u8) -> String {
    let b64 = zoo::base64(bytes);
    let pre = "data:application/json;base64,";
    match variant {
        0 => format!("{pre}{b64}"),
        1 => format!("{pre}{}", b64.trim_end_matches('=')),
        2 => format!("{pre}{b64}\n"),
        3 => format!("{pre}{}", b64.replace('+', "-").replace('/', "_")),
        4 => pre[..(bytes.len() % pre.len())].to_string(),
        5 => format!("data:application/json;base64{}{b64}", ["é", "€", "👌"][bytes.len() % 3]),
        6 => format!("data:application/json;charset=utf-8;base64,{b64}"),
        7 => format!("DATA:application/json;base64,{b64}"),
        8 => {
            let mut t = b64.clone();
            if t.len() > 4 {
                t.insert(t.len() / 2, ' ');
            }
            format!("{pre}{t}")
        }
        _ => format!("{pre}{b64}="),
    }
}

fn data_url_side(bytes: &[u8], variant: u8) -> Out {
    let url = data_url(bytes, variant);
    guard(|| map_out(sourcemap::decode_data_url(&url)))
}

/// What the header model says both paths must do (absolute oracle).
#[derive(Clone, Debug, PartialEq, Eq)]
pub enum Abs {
    /// no absolute statement for this case
    NotApplicable,
    /// both paths must behave exactly like the slice path on `body`
    LikeBody(Vec<u8>),
    /// both paths must fail (bare CR, or header without newline)
    MustFail,
}

#[derive(Clone, Debug)]
pub struct Case {
    pub label: String,
    pub entry: Entry,
    pub events: Vec<Event>,
    pub abs: Abs,
    pub nl: &'static str,
    pub header_len: usize,
    pub chunking: &'static str,
    pub content_faults: u32,
    pub at_rest_damage: bool,
    pub doc_kind: &'static str,
    pub stats: TransportStats,
    /// scribble over the unused tail of the caller's read buffer
    pub poison: bool,
    /// 0 = hand the SimReader over directly; k > 0 = wrap it in BufReader::with_capacity(k)
    pub wrap_capacity: usize,
    /// data-URL spelling (DataUrl entry): 0 canonical; others are non-canonical spellings
    pub url_variant: u8,
}

const JUNK_STARTS: [u8; 4] = [b')', b']', b'}', b'\''];
const GARBAGE: [&[u8]; 14] = [b"]", b"}", b"'", b")", b"\"", b"{", b"[", b" ", b"x", b"\\", b"\xc3\xa9", b"\xff", b"while(1);", b"\t"];

struct Header {
    bytes: Vec<u8>,
    nl: &'static str,
    clean: bool,
}

fn gen_header(rng: &mut Rng) -> Option<Header> {
    if rng.chance(28, 100) {
        return None;
    }
    let mut h = Vec::new();
    let mut clean = true;
    if rng.chance(1, 4) {
        h.extend_from_slice(b")]}'");
    } else if rng.chance(1, 10) {
        // a first byte that is *near* the four junk bytes (neighbours in ASCII, other
        // punctuation, real-world prefixes, control and high bytes): both paths must agree that
        // this is no junk header (the model does not apply)
        h.extend_from_slice(*rng.pick(&[&b"("[..], b"&", b"\\", b"|", b"~", b"^", b"*", b"<", b"`", b"\x00", b"\x7f", b"\x80", b"\xa9", b"\xff", b"while(1);", b"for(;;);", b"&&&START&&&", b"/", b"("]));
        clean = false;
    } else {
        h.push(*rng.pick(&JUNK_STARTS[..]));
    }
    // header lengths: none, short, around BufReader's default 8192, and (rarely) around other
    // plausible buffer sizes, so that a change of buffering does not move the interesting
    // boundary out of reach
    let target = match rng.weighted(&[300, 550, 130, 8, 8, 4]) {
        0 => 0,
        1 => rng.range_usize(1, 40),
        2 => rng.range_usize(8185, 8200),
        3 => rng.range_usize(4090, 4100),
        4 => rng.range_usize(16378, 16392),
        _ => rng.range_usize(65530, 65542),
    };
    while h.len() < target {
        if target > 100 && h.len() + 64 < target {
            // long headers: bulk filler
            let k = (target - h.len() - 8).min(512);
            h.extend(std::iter::repeat(*rng.pick(&[b'x', b']', b' ', b'"'])).take(k));
            continue;
        }
        if rng.chance(1, 40) {
            // interior CR/LF: the model still applies, the "like body" shortcut does not
            h.extend_from_slice(*rng.pick(&[&b"\r"[..], &b"\n"[..], &b"\r\n"[..]]));
            clean = false;
        } else {
            h.extend_from_slice(*rng.pick(&GARBAGE[..]));
        }
    }
    if rng.chance(1, 14) {
        // crafted tails: a bare CR followed by junk start bytes / another CR / LF-CR order
        h.extend_from_slice(*rng.pick(&[&b"\r)"[..], b"\r]}", b"\r\r", b"\n\r", b"\r'x", b"x\ry", b"\r)]}'"]));
        clean = false;
    }
    let nl = *rng.pick(&["\n", "\n", "\n", "\r\n", "\r\n", "\r\n", "\r", "\r", ""]);
    Some(Header { bytes: h, nl, clean })
}

fn damage_at_rest(body: &mut Vec<u8>, rng: &mut Rng) {
    if body.is_empty() {
        return;
    }
    match rng.below(5) {
        4 => {
            // a byte that is not UTF-8 on its own, preferably inside a string value (documents
            // carry strings under keys the decoder ignores as well as under keys it reads)
            let letters: Vec<usize> = (0..body.len()).filter(|&i| body[i].is_ascii_alphabetic()).collect();
            let i = if letters.is_empty() { rng.below_usize(body.len()) } else { *rng.pick(&letters[..]) };
            body[i] = *rng.pick(&[0xffu8, 0xc3, 0x80, 0xfe, 0xed]);
        }
        0 => {
            let k = rng.below_usize(body.len() + 1);
            body.truncate(k);
        }
        1 => {
            let i = rng.below_usize(body.len());
            body[i] ^= 1 << rng.below(8);
        }
        2 => {
            let i = rng.below_usize(body.len());
            body[i] = *rng.pick(&b"\"\\{}[],:0 \n\r)]'A;"[..]);
        }
        _ => {
            let i = rng.below_usize(body.len());
            let b = body[i];
            body.insert(i, b);
        }
    }
}

pub fn gen_case(rng: &mut Rng, fx: &Fixtures) -> Case {
    let doc = zoo::draw(rng, fx, 2);
    let mut body = (*doc.bytes).clone();
    let at_rest_damage = rng.chance(22, 100);
    if at_rest_damage {
        damage_at_rest(&mut body, rng);
    }
    let header = gen_header(rng);
    // bytes in front of everything: a UTF-8 BOM (whole, torn, doubled) or whitespace. Both paths
    // must treat them alike (on the shipped code: a BOM is rejected by both, whitespace is JSON
    // whitespace when there is no header). The absolute header model does not apply then.
    let lead: &[u8] = match rng.below(40) {
        0 | 1 => b"\xef\xbb\xbf",
        2 => b"\xef\xbb",
        3 => b"\xef\xbb\xbf\xef\xbb\xbf",
        4 => b" ",
        5 => b"\n",
        6 => b"\xef\xbb\xbf ",
        _ => b"",
    };
    let (mut stored, mut header_len, nl, abs) = match &header {
        None => (Vec::new(), 0usize, "none", Abs::NotApplicable),
        Some(h) => {
            let mut s = h.bytes.clone();
            s.extend_from_slice(h.nl.as_bytes());
            let hl = s.len();
            let body_starts_junk = body.first().map(|b| is_junk_start(*b)).unwrap_or(false);
            let abs = if !h.clean {
                Abs::NotApplicable
            } else {
                match h.nl {
                    "\n" | "\r\n" => {
                        if body_starts_junk {
                            Abs::NotApplicable
                        } else {
                            Abs::LikeBody(body.clone())
                        }
                    }
                    "\r" => {
                        if body.first() == Some(&b'\n') {
                            Abs::NotApplicable
                        } else {
                            Abs::MustFail
                        }
                    }
                    _ => {
                        // no newline after the header: everything up to the body's first
                        // newline (if any) is header. Only the header-only stream is decided here.
                        Abs::NotApplicable
                    }
                }
            };
            let nlname = match h.nl {
                "\n" => "lf",
                "\r\n" => "crlf",
                "\r" => "cr",
                _ => "no-newline",
            };
            (s, hl, nlname, abs)
        }
    };
    let mut abs = abs;
    if !lead.is_empty() {
        let mut s2 = lead.to_vec();
        s2.extend_from_slice(&stored);
        stored = s2;
        header_len += lead.len();
        abs = Abs::NotApplicable;
    }
    let header_only = header.as_ref().map(|h| h.nl.is_empty()).unwrap_or(false) && rng.chance(1, 2);
    if header_only {
        body.clear();
        if header.as_ref().map(|h| h.clean).unwrap_or(false) {
            abs = Abs::MustFail;
        }
    }
    stored.extend_from_slice(&body);
    // total length aimed at a buffer multiple (whitespace padding is JSON whitespace), or far
    // trailing garbage behind a long run of whitespace (both paths must reject it)
    match rng.below(60) {
        0 | 1 => {
            let unit = *rng.pick(&[4096usize, 8192, 16384]);
            let k = stored.len() / unit + 1;
            let target = (k * unit) as i64 + *rng.pick(&[-1i64, 0, 1]);
            while (stored.len() as i64) < target {
                stored.push(b' ');
            }
        }
        2 => {
            stored.extend(std::iter::repeat(b' ').take(*rng.pick(&[100usize, 8200, 9000, 17000])));
            stored.extend_from_slice(*rng.pick(&[&b"x"[..], b"{}", b"\x00", b"]"]));
            abs = Abs::NotApplicable;
        }
        _ => {}
    }

    let n = stored.len();
    let chunking = match rng.weighted(&[8, 10, 30, 30, 10, 12]) {
        0 => Chunking::AllAtOnce,
        1 => {
            if n <= 4096 {
                Chunking::OneByte
            } else {
                Chunking::FineHead(header_len + 64)
            }
        }
        2 => Chunking::SplitAt(rng.below_usize(header_len + 5)),
        3 => Chunking::Geometric(*rng.pick(&[1usize, 2, 8, 64, 1024])),
        4 => {
            if n > 8192 {
                Chunking::Near8k
            } else {
                Chunking::Geometric(3)
            }
        }
        _ => Chunking::FineHead(header_len + rng.below_usize(8)),
    };
    let mut chunks = cut(&stored, &chunking, rng);
    let mut stats = TransportStats::default();
    let mut content_faults = 0;
    if rng.chance(15, 100) {
        let f = *rng.pick(&[ContentFault::Drop, ContentFault::Duplicate, ContentFault::Swap, ContentFault::Flip, ContentFault::EarlyEof]);
        apply_content_fault(&mut chunks, f, rng, &mut stats);
        content_faults = stats.dropped + stats.duplicated + stats.swapped + stats.flipped + stats.early_eof;
    }
    if content_faults > 0 {
        abs = Abs::NotApplicable;
    }
    let eintr = *rng.pick(&[0u64, 0, 10, 40]);
    let hard = if rng.chance(10, 100) { Some((rng.below_usize(chunks.len() + 1), *rng.pick(&ErrKind::ALL[..]))) } else { None };
    let mut events = interleave(chunks, eintr, hard, rng, &mut stats);
    if hard.is_some() && rng.chance(1, 6) {
        // a second hard error later in the stream (a consumer that swallowed the first one)
        let at = rng.below_usize(events.len() + 1);
        events.insert(at, Event::Error(*rng.pick(&ErrKind::ALL[..])));
        stats.hard_error += 1;
    }
    let entry = Entry::ALL[rng.weighted(&[34, 6, 12, 10, 10, 22, 6])];
    Case {
        poison: rng.chance(1, 5),
        wrap_capacity: if rng.chance(1, 20) { *rng.pick(&[1usize, 3, 64, 8191, 8193, 20000]) } else { 0 },
        url_variant: if rng.chance(1, 2) { 0 } else { 1 + rng.below(9) as u8 },
        label: doc.label,
        entry,
        events,
        abs,
        nl,
        header_len,
        chunking: chunking.name(),
        content_faults,
        at_rest_damage,
        doc_kind: doc.kind.name(),
        stats,
    }
}

pub struct Exec {
    pub verdict: Option<(String, String)>,
    pub event_hash: u64,
    pub log: ReadLog,
    pub bsig: BoundarySig,
    pub reader: Out,
    pub slice: Out,
}

pub fn execute(c: &Case) -> Exec {
    let d = delivered(&c.events);
    let mut verdict: Option<(String, String)> = None;
    let mut set = |sig: String, detail: String| {
        if verdict.is_none() {
            verdict = Some((sig, detail));
        }
    };
    let (reader, log) = if c.entry == Entry::DataUrl {
        (data_url_side(&d, c.url_variant), ReadLog::default())
    } else {
        let mut rdr = SimReader::new(&c.events);
        rdr.poison = c.poison;
        let out = if c.wrap_capacity > 0 {
            // the caller's own buffering in front of the library: the library then sees read
            // requests of `wrap_capacity` bytes instead of its usual 8192
            let mut wrapped = std::io::BufReader::with_capacity(c.wrap_capacity, &mut rdr);
            reader_side_generic(c.entry, &mut wrapped)
        } else {
            reader_side(c.entry, &mut rdr)
        };
        (out, rdr.log)
    };
    let slice = slice_side(c.entry, &d);
    let bsig = boundary_signature(&d, &log.served);
    let e = c.entry.name();
    if log.budget_exceeded {
        set(format!("hang:{e}"), format!("the reader was polled {} times ({} after end of stream) for {} bytes", log.read_calls, log.polls_after_eof, d.len()));
    }
    // relative oracle
    if log.hard_error_delivered {
        let failed = matches!(reader, Out::Err | Out::Bool(false));
        if !failed && reader != slice {
            set(
                format!("rel-after-io-error:{e}:{}-vs-{}", reader.class(), slice.class()),
                format!("after an injected non-retryable error the reader path returned {}, the slice path on the delivered bytes {}", reader.short(), slice.short()),
            );
        }
    } else if c.entry == Entry::DataUrl && c.url_variant != 0 {
        // a non-canonical spelling: an error, or the payload's map; never a different map
        if reader != Out::Err && reader != slice {
            set(
                format!("rel:{e}:variant{}:{}-vs-{}", c.url_variant, reader.class(), slice.class()),
                format!("a non-canonical data URL (variant {}) decoded to {}, its payload decodes to {}", c.url_variant, reader.short(), slice.short()),
            );
        }
    } else if reader != slice {
        let what = if reader.class() == slice.class() { "differ".to_string() } else { format!("{}-vs-{}", reader.class(), slice.class()) };
        set(
            format!("rel:{e}:{what}"),
            format!(
                "reader path returned {}, slice path on the same {} delivered bytes returned {} (header newline {}, header length {}, reads served {:?}{})",
                reader.short(),
                d.len(),
                slice.short(),
                c.nl,
                c.header_len,
                &log.served[..log.served.len().min(12)],
                if log.served.len() > 12 { ", ..." } else { "" }
            ),
        );
    }
    // absolute oracle (content-fault-free runs with a clean header; canonical data URLs only)
    if !log.hard_error_delivered && !(c.entry == Entry::DataUrl && c.url_variant != 0) {
        match &c.abs {
            Abs::NotApplicable => {}
            Abs::LikeBody(body) => {
                let want = slice_side(c.entry, body);
                if reader != want {
                    set(
                        format!("abs:{e}:{}:reader:{}-for-{}", c.nl, reader.class(), want.class()),
                        format!("header + {} + body must decode like the body alone ({}), the reader path returned {}", c.nl, want.short(), reader.short()),
                    );
                }
                if slice != want {
                    set(
                        format!("abs:{e}:{}:slice:{}-for-{}", c.nl, slice.class(), want.class()),
                        format!("header + {} + body must decode like the body alone ({}), the slice path returned {}", c.nl, want.short(), slice.short()),
                    );
                }
            }
            Abs::MustFail => {
                let ok = |o: &Out| matches!(o, Out::Err | Out::Bool(false));
                if !ok(&reader) {
                    set(format!("abs:{e}:{}:reader:{}-for-Err", c.nl, reader.class()), format!("a header ending in {} must be rejected, the reader path returned {}", c.nl, reader.short()));
                }
                if !ok(&slice) {
                    set(format!("abs:{e}:{}:slice:{}-for-Err", c.nl, slice.class()), format!("a header ending in {} must be rejected, the slice path returned {}", c.nl, slice.short()));
                }
            }
        }
    }
    let mut h = H64::new();
    h.u64(events_hash(&c.events));
    h.u64(c.entry as u64);
    h.u64(c.url_variant as u64 + 16 * c.wrap_capacity as u64 + if c.poison { 1 << 40 } else { 0 });
    h.str(&reader.short());
    h.str(&slice.short());
    h.u64(log.read_calls);
    for s in &log.served {
        h.u64(*s as u64);
    }
    Exec { verdict, event_hash: h.finish(), log, bsig, reader, slice }
}

impl Case {
    fn to_json(&self) -> Value {
        json!({
            "doc": self.label, "entry": self.entry.name(), "events": events_to_json(&self.events),
            "abs": match &self.abs { Abs::NotApplicable => json!("n/a"), Abs::MustFail => json!("must-fail"), Abs::LikeBody(b) => json!({"like_body": hex(b)}) },
            "nl": self.nl, "header_len": self.header_len, "chunking": self.chunking,
            "poison": self.poison, "wrap_capacity": self.wrap_capacity, "url_variant": self.url_variant,
        })
    }
    fn from_json(v: &Value) -> Option<Case> {
        let abs = match &v["abs"] {
            Value::String(s) if s == "must-fail" => Abs::MustFail,
            Value::Object(o) => Abs::LikeBody(unhex(o.get("like_body")?.as_str()?)?),
            _ => Abs::NotApplicable,
        };
        let nl = match v["nl"].as_str()? {
            "lf" => "lf",
            "crlf" => "crlf",
            "cr" => "cr",
            "no-newline" => "no-newline",
            _ => "none",
        };
        Some(Case {
            label: v["doc"].as_str()?.to_string(),
            entry: Entry::from_name(v["entry"].as_str()?)?,
            events: events_from_json(&v["events"])?,
            abs,
            nl,
            header_len: v["header_len"].as_u64()? as usize,
            chunking: "replay",
            content_faults: 0,
            at_rest_damage: false,
            doc_kind: "replay",
            stats: TransportStats::default(),
            poison: v["poison"].as_bool().unwrap_or(false),
            wrap_capacity: v["wrap_capacity"].as_u64().unwrap_or(0) as usize,
            url_variant: v["url_variant"].as_u64().unwrap_or(0) as u8,
        })
    }
    fn summary(&self) -> Value {
        let d = delivered(&self.events);
        json!({
            "doc": self.label, "entry": self.entry.name(), "header_newline": self.nl, "header_len": self.header_len,
            "chunking": self.chunking, "delivered_bytes": d.len(),
            "delivered_prefix": String::from_utf8_lossy(&d[..d.len().min(60)]),
            "events": self.events.iter().take(12).map(|e| match e {
                Event::Data(c) => json!({"data_len": c.len()}),
                Event::Interrupted => json!("EINTR"),
                Event::Error(k) => json!({"error": k.name()}),
            }).collect::<Vec<_>>(),
            "events_total": self.events.len(),
        })
    }
}

// ---------------------------------------------------------------- systematic sweep

fn sweep_cases(fx: &Fixtures) -> Vec<Case> {
    let small: Vec<(&str, Vec<u8>)> = vec![
        ("inline:basic", zoo::INLINE_DOCS[0].1.as_bytes().to_vec()),
        ("inline:index", zoo::INLINE_DOCS[3].1.as_bytes().to_vec()),
        ("non-map:[1, 2, 3]", b"[1, 2, 3]".to_vec()),
        ("invalid:{", b"{".to_vec()),
        ("ws-body", format!("\n {}", zoo::INLINE_DOCS[0].1).into_bytes()),
        // a second junk line in front of the document (only the first line is a header), and a
        // body that begins with the LF that turns a bare-CR header into a CRLF one
        ("junk-line-body", format!(")]}}'\n{}", zoo::INLINE_DOCS[0].1).into_bytes()),
        ("lf-first-body", format!("\n{}", zoo::INLINE_DOCS[0].1).into_bytes()),
    ];
    let _ = fx;
    let headers: Vec<&[u8]> = vec![b")", b"]", b"}", b"'", b")]}'", b")]}garbage", b"}\"{[", b"'\xc3\xa9\xff", b")]}' // x"];
    let nls: [(&str, &str); 4] = [("\n", "lf"), ("\r\n", "crlf"), ("\r", "cr"), ("", "no-newline")];
    let mut out = Vec::new();
    let mk = |label: &str, entry: Entry, chunks: Vec<Vec<u8>>, abs: Abs, nl: &'static str, hl: usize, how: &'static str| Case {
        label: label.to_string(),
        entry,
        events: chunks.into_iter().map(Event::Data).collect(),
        abs,
        nl,
        header_len: hl,
        chunking: how,
        content_faults: 0,
        at_rest_damage: false,
        doc_kind: "sweep",
        stats: TransportStats::default(),
        poison: false,
        wrap_capacity: 0,
        url_variant: 0,
    };
    for (label, body) in &small {
        for h in &headers {
            for (nl, nlname) in nls {
                for header_only in [false, true] {
                    if header_only && !nl.is_empty() && nl != "\r" {
                        continue;
                    }
                    let mut stored = h.to_vec();
                    stored.extend_from_slice(nl.as_bytes());
                    let hl = stored.len();
                    if !header_only {
                        stored.extend_from_slice(body);
                    }
                    let abs = match nl {
                        "\n" | "\r\n" if body.first().map(|b| is_junk_start(*b)).unwrap_or(false) => Abs::NotApplicable,
                        "\n" | "\r\n" => Abs::LikeBody(body.clone()),
                        "\r" => {
                            if !header_only && body.first() == Some(&b'\n') {
                                Abs::NotApplicable
                            } else {
                                Abs::MustFail
                            }
                        }
                        _ => {
                            if header_only {
                                Abs::MustFail
                            } else {
                                Abs::NotApplicable
                            }
                        }
                    };
                    for entry in [Entry::Decode, Entry::Detect] {
                        // every single split
                        for p in 0..=(hl + 4).min(stored.len()) {
                            let mut rng = Rng::new(0);
                            let chunks = cut(&stored, &Chunking::SplitAt(p), &mut rng);
                            out.push(mk(label, entry, chunks, abs.clone(), nlname, hl, "sweep-1-split"));
                        }
                        // every pair of splits in the header region
                        let lim = (hl + 3).min(stored.len());
                        for p in 1..lim {
                            for q in (p + 1)..=lim {
                                if q >= stored.len() {
                                    continue;
                                }
                                let chunks = vec![stored[..p].to_vec(), stored[p..q].to_vec(), stored[q..].to_vec()];
                                out.push(mk(label, entry, chunks, abs.clone(), nlname, hl, "sweep-2-splits"));
                            }
                        }
                        // one byte per read
                        let chunks: Vec<Vec<u8>> = stored.iter().map(|b| vec![*b]).collect();
                        out.push(mk(label, entry, chunks, abs.clone(), nlname, hl, "sweep-one-byte"));
                    }
                }
            }
        }
    }
    // headers whose end straddles BufReader's 8192 bytes, delivered in full-size reads
    let body = zoo::INLINE_DOCS[0].1.as_bytes().to_vec();
    let boundaries: Vec<usize> = [4096usize, 8192, 16384, 32768, 65536].iter().flat_map(|b| (b - 6)..=(b + 6)).collect();
    for total in boundaries {
        for (nl, nlname) in nls {
            if nl.is_empty() {
                continue;
            }
            let mut stored = vec![b')'];
            while stored.len() + nl.len() < total {
                stored.push(b'x');
            }
            stored.extend_from_slice(nl.as_bytes());
            let hl = stored.len();
            stored.extend_from_slice(&body);
            let abs = if nl == "\r" { Abs::MustFail } else { Abs::LikeBody(body.clone()) };
            let b = [4096usize, 8192, 16384, 32768, 65536].into_iter().min_by_key(|b| (*b as i64 - total as i64).abs()).unwrap();
            for entry in [Entry::Decode, Entry::Detect, Entry::Regular] {
                out.push(mk("inline:basic", entry, vec![stored.clone()], abs.clone(), nlname, hl, "sweep-8192-all-at-once"));
                out.push(mk("inline:basic", entry, vec![stored[..b.min(stored.len())].to_vec(), stored[b.min(stored.len())..].to_vec()], abs.clone(), nlname, hl, "sweep-8192-split"));
            }
        }
    }
    out
}

// ---------------------------------------------------------------- batch

#[derive(Default)]
struct Acc {
    runs: u64,
    read_calls: u64,
    bytes: u64,
    traces: KeySet,
    nontrivial: KeySet,
    boundary_sigs: KeySet,
    fired: BTreeMap<&'static str, u64>,
    cells: BTreeMap<&'static str, u64>,
    entries: BTreeMap<&'static str, u64>,
    doc_kinds: BTreeMap<&'static str, u64>,
    chunkings: BTreeMap<&'static str, u64>,
    nls: BTreeMap<&'static str, u64>,
    outcomes: BTreeMap<String, u64>,
    abs_checked: u64,
    violations: ViolationTable,
    digest: u64,
    det_checked: u64,
    det_mismatch: Vec<u64>,
    samples: Vec<(u64, Value)>,
}

fn account(acc: &mut Acc, i: u64, c: &Case, ex: &Exec) {
    acc.runs += 1;
    acc.read_calls += ex.log.read_calls;
    acc.bytes += ex.log.bytes_served;
    let key = ex.event_hash;
    acc.traces.insert(key);
    let b = &ex.bsig;
    let faulted = ex.log.hard_error_delivered || ex.log.interrupted_delivered > 0 || c.content_faults > 0;
    if b.inside_header || b.inside_crlf || b.exactly_at_header_end || faulted {
        acc.nontrivial.insert(key);
    }
    acc.boundary_sigs.insert(boundary_hash(b));
    let mut cell = |name: &'static str, on: bool| {
        if on {
            *acc.cells.entry(name).or_default() += 1;
        }
    };
    cell("read boundary inside header", b.inside_header);
    cell("read boundary inside \\r\\n", b.inside_crlf);
    cell("read boundary exactly at header end", b.exactly_at_header_end);
    cell("header end beyond 8192", b.header_crosses_8192);
    cell("state Undecided->PastHeader (no header)", b.states.first() == Some(&HState::PastHeader) && c.header_len == 0);
    cell("state Rejected (bare CR)", b.states.last() == Some(&HState::Rejected));
    let mut fire = |name: &'static str, n: u64| {
        if n > 0 {
            *acc.fired.entry(name).or_default() += n;
        }
    };
    fire("EINTR delivered", ex.log.interrupted_delivered as u64);
    fire("hard I/O error delivered", ex.log.hard_error_delivered as u64);
    fire("chunk dropped", c.stats.dropped as u64);
    fire("chunk duplicated", c.stats.duplicated as u64);
    fire("chunks swapped", c.stats.swapped as u64);
    fire("bit flipped in flight", c.stats.flipped as u64);
    fire("early end of stream", c.stats.early_eof as u64);
    fire("at-rest damage", c.at_rest_damage as u64);
    fire("short reads (served < 8192 requested)", ex.log.served.iter().filter(|&&n| n < 8192).count() as u64);
    *acc.entries.entry(c.entry.name()).or_default() += 1;
    *acc.doc_kinds.entry(c.doc_kind).or_default() += 1;
    *acc.chunkings.entry(c.chunking).or_default() += 1;
    *acc.nls.entry(c.nl).or_default() += 1;
    *acc.outcomes.entry(format!("{}/{}", ex.reader.class(), ex.slice.class())).or_default() += 1;
    if c.abs != Abs::NotApplicable && !ex.log.hard_error_delivered {
        acc.abs_checked += 1;
    }
    let mut d = H64::new();
    d.u64(i);
    d.u64(ex.event_hash);
    acc.digest = acc.digest.wrapping_add(d.finish());
    if let Some((sig, detail)) = &ex.verdict {
        acc.violations.add(sig.clone(), i, format!("{detail}; doc {}", c.label));
    }
}

const SWEEP_BASE: u64 = 1 << 40;

fn case_for_index(i: u64, base_seed: u64, fx: &Fixtures, sweep: &[Case]) -> Case {
    if i >= SWEEP_BASE {
        sweep[(i - SWEEP_BASE) as usize].clone()
    } else {
        let run_seed = rng::mix(base_seed, simcore::stage_domain(PROP), i);
        gen_case(&mut Rng::new(run_seed), fx)
    }
}

fn minimise(c0: &Case, sig: &str) -> (Case, Value) {
    let probes = std::cell::Cell::new(0u64);
    // best effort within a time budget (a probe on a megabyte document costs milliseconds)
    let deadline = std::time::Instant::now() + std::time::Duration::from_secs(20);
    let fails = |c: &Case| {
        if std::time::Instant::now() > deadline {
            return false;
        }
        probes.set(probes.get() + 1);
        execute(c).verdict.map(|v| v.0 == sig).unwrap_or(false)
    };
    let mut c = c0.clone();
    // 1. remove control events and merge chunks (ddmin over the event list keeps D' intact only
    //    for control events; so first try dropping control events, then merging data)
    let ctrl_free: Vec<Event> = c.events.iter().filter(|e| matches!(e, Event::Data(_))).cloned().collect();
    if ctrl_free.len() < c.events.len() {
        let mut cand = c.clone();
        cand.events = ctrl_free;
        if fails(&cand) {
            c = cand;
        } else {
            // drop control events one at a time
            let mut k = 0;
            while k < c.events.len() {
                if !matches!(c.events[k], Event::Data(_)) {
                    let mut cand = c.clone();
                    cand.events.remove(k);
                    if fails(&cand) {
                        c = cand;
                        continue;
                    }
                }
                k += 1;
            }
        }
    }
    // 2. merge adjacent data chunks
    let mut k = 0;
    while k + 1 < c.events.len() && probes.get() < 5000 {
        if let (Event::Data(a), Event::Data(b)) = (&c.events[k], &c.events[k + 1]) {
            let mut merged = a.clone();
            merged.extend_from_slice(b);
            let mut cand = c.clone();
            cand.events[k] = Event::Data(merged);
            cand.events.remove(k + 1);
            if fails(&cand) {
                c = cand;
                continue;
            }
        }
        k += 1;
    }
    // 3. shrink the body tail: drop trailing bytes of the last data chunk while it still fails
    //    (only when there is no absolute expectation tied to the body)
    if c.abs == Abs::NotApplicable {
        loop {
            let last = c.events.iter().rposition(|e| matches!(e, Event::Data(_)));
            let Some(li) = last else { break };
            let Event::Data(d) = &c.events[li] else { break };
            if d.len() <= 1 || probes.get() > 8000 {
                break;
            }
            let mut cand = c.clone();
            let half = d.len() / 2;
            cand.events[li] = Event::Data(d[..half].to_vec());
            if fails(&cand) {
                c = cand;
            } else {
                break;
            }
        }
    }
    let info = json!({"probes": probes.get(), "original_events": c0.events.len(), "minimised_events": c.events.len(),
                      "original_bytes": delivered(&c0.events).len(), "minimised_bytes": delivered(&c.events).len()});
    (c, info)
}

fn do_replay(path: &str) -> i32 {
    let v = simcore::read_json(path);
    let c = Case::from_json(&v["case"]).unwrap_or_else(|| harness_error("replay file: bad case"));
    let want_sig = v["signature"].as_str().unwrap_or("");
    let want_hash = v["event_hash"].as_str().unwrap_or("");
    let ex = execute(&c);
    let eh = format!("{:016x}", ex.event_hash);
    println!("entry: {}  delivered bytes: {}", c.entry.name(), delivered(&c.events).len());
    println!("reads served: {:?}", &ex.log.served[..ex.log.served.len().min(40)]);
    println!("reader path: {}", ex.reader.short());
    println!("slice path:  {}", ex.slice.short());
    match ex.verdict {
        Some((sig, detail)) => {
            println!("replayed: signature={sig}\ndetail: {detail}");
            if sig == want_sig && (eh == want_hash || want_hash.is_empty()) {
                println!("VIOLATION property={PROP} replay={path}");
                1
            } else {
                println!("HARNESS-ERROR: replay diverged (signature {sig} vs {want_sig}, event hash {eh} vs {want_hash})");
                2
            }
        }
        None => {
            println!("replay of {path}: property held (recorded signature {want_sig}); the tree no longer fails this trace");
            0
        }
    }
}

pub fn main(args: &Args) -> i32 {
    let base_seed = args.num("--seed").unwrap_or_else(simcore::seed_from_env);
    let emit = |idx: u64, sig: &str| -> String {
        let fx = Fixtures::load();
        let sweep = sweep_cases(&fx);
        let c = case_for_index(idx, base_seed, &fx, &sweep);
        let path = simcore::replay_path(PROP, base_seed, idx);
        simcore::write_json_atomic(
            &path,
            &json!({"property": PROP, "profile": simcore::profile_name(), "engine": "sim_io/c12 (SimTransport + SimReader)", "base_seed": base_seed, "run_index": idx,
                    "case": c.to_json(), "signature": sig, "event_hash": "",
                    "detail": "the process died inside a library call while executing this case (not minimised)"}),
        );
        path
    };
    if let simcore::isolate::Supervised::Done(rc) = simcore::isolate::supervise(PROP, args, emit) {
        return rc;
    }
    if let Some(path) = args.value("--replay") {
        return do_replay(path);
    }
    let tier = simcore::tier_from(args);
    let workers = args.num("--workers").map(|w| w as usize).unwrap_or_else(simcore::par::workers_from_env);
    let runs = args.num("--runs").unwrap_or(match tier {
        Tier::Quick => 300_000,
        Tier::Thorough => 30_000_000 / if simcore::debug_stage() { 10 } else { 1 },
    });
    let det_n = match tier {
        Tier::Quick => 200.min(runs),
        Tier::Thorough => 2000.min(runs),
    };
    let fx = Fixtures::load();
    let sweep = sweep_cases(&fx);
    println!(
        "sim_io property={PROP} tier={} VERIF_SEED={base_seed} seeded_runs={runs} systematic_sweep={} workers={workers}{}",
        tier.name(),
        sweep.len(),
        if simcore::debug_stage() { " stage=debug-profile" } else { "" }
    );
    let t0 = std::time::Instant::now();
    let total = runs + sweep.len() as u64;
    let accs = simcore::par::run_batch(
        total,
        workers,
        512,
        |_| Acc::default(),
        |acc: &mut Acc, j, _s: &AtomicBool| {
            let i = if j < runs { j } else { SWEEP_BASE + (j - runs) };
            simcore::isolate::trace_run(i);
            let c = case_for_index(i, base_seed, &fx, &sweep);
            let ex = execute(&c);
            if j < det_n {
                acc.det_checked += 1;
                let c2 = case_for_index(i, base_seed, &fx, &sweep);
                if execute(&c2).event_hash != ex.event_hash {
                    acc.det_mismatch.push(i);
                }
            }
            account(acc, i, &c, &ex);
            if j < 3 || (i >= SWEEP_BASE && i < SWEEP_BASE + 2) {
                acc.samples.push((i, json!({"run_index": i, "case": c.summary(), "reads_served": &ex.log.served[..ex.log.served.len().min(16)],
                    "reader_path": ex.reader.short(), "slice_path": ex.slice.short()})));
            }
        },
    );
    let mut acc = Acc::default();
    for a in accs {
        acc.runs += a.runs;
        acc.read_calls += a.read_calls;
        acc.bytes += a.bytes;
        acc.traces.merge(a.traces);
        acc.nontrivial.merge(a.nontrivial);
        acc.boundary_sigs.merge(a.boundary_sigs);
        for (k, v) in a.fired {
            *acc.fired.entry(k).or_default() += v;
        }
        for (k, v) in a.cells {
            *acc.cells.entry(k).or_default() += v;
        }
        for (k, v) in a.entries {
            *acc.entries.entry(k).or_default() += v;
        }
        for (k, v) in a.doc_kinds {
            *acc.doc_kinds.entry(k).or_default() += v;
        }
        for (k, v) in a.chunkings {
            *acc.chunkings.entry(k).or_default() += v;
        }
        for (k, v) in a.nls {
            *acc.nls.entry(k).or_default() += v;
        }
        for (k, v) in a.outcomes {
            *acc.outcomes.entry(k).or_default() += v;
        }
        acc.abs_checked += a.abs_checked;
        acc.violations.merge(a.violations);
        acc.digest = acc.digest.wrapping_add(a.digest);
        acc.det_checked += a.det_checked;
        acc.det_mismatch.extend(a.det_mismatch);
        acc.samples.extend(a.samples);
    }
    acc.samples.sort_by_key(|s| s.0);
    let wall = t0.elapsed().as_secs_f64();
    if args.flag("--digest") {
        println!("DIGEST {:016x} runs={} violations={}", acc.digest, acc.runs, acc.violations.total());
        return 0;
    }
    if !acc.det_mismatch.is_empty() {
        harness_error(&format!("determinism self-test failed for runs {:?}", acc.det_mismatch));
    }
    let findings = simcore::load_findings();
    let (known, new) = acc.violations.classify(PROP, &findings);
    for l in &known {
        println!("{l}");
    }
    let mut reported = Vec::new();
    for (sig, idx, cnt, _detail) in new.iter().take(5) {
        let c = case_for_index(*idx, base_seed, &fx, &sweep);
        let (cm, info) = minimise(&c, sig);
        let ex = execute(&cm);
        let detail = ex.verdict.as_ref().map(|v| v.1.clone()).unwrap_or_default();
        let path = simcore::replay_path(PROP, base_seed, *idx);
        simcore::write_json_atomic(
            &path,
            &json!({"property": PROP, "profile": simcore::profile_name(), "engine": "sim_io/c12 (SimTransport + SimReader)", "base_seed": base_seed, "run_index": idx,
                    "case": cm.to_json(), "signature": sig, "detail": detail, "event_hash": format!("{:016x}", ex.event_hash), "minimisation": info,
                    "delivered_text": String::from_utf8_lossy(&delivered(&cm.events)[..delivered(&cm.events).len().min(200)])}),
        );
        if !simcore::verify_replay_in_fresh_process(PROP, &path) {
            harness_error(&format!("replay file {path} did not reproduce in a fresh process"));
        }
        println!("violation: signature={sig} runs={cnt} first_run={idx} :: {detail}");
        println!("VIOLATION property={PROP} replay={path}");
        reported.push(json!({"signature": sig, "runs": cnt, "first_run": idx, "replay": path, "detail": detail}));
    }
    let mut probe_fail = Vec::new();
    if tier == Tier::Thorough || runs >= 100_000 {
        for must in ["read boundary inside header", "read boundary inside \\r\\n", "read boundary exactly at header end", "header end beyond 8192", "state Rejected (bare CR)"] {
            if acc.cells.get(must).copied().unwrap_or(0) == 0 {
                probe_fail.push(must.to_string());
            }
        }
        for must in ["EINTR delivered", "hard I/O error delivered", "chunk dropped", "chunk duplicated", "chunks swapped", "bit flipped in flight", "early end of stream", "at-rest damage"] {
            if acc.fired.get(must).copied().unwrap_or(0) == 0 {
                probe_fail.push(must.to_string());
            }
        }
        if acc.outcomes.get("Map/Map").copied().unwrap_or(0) == 0 || acc.outcomes.get("Err/Err").copied().unwrap_or(0) == 0 {
            probe_fail.push("both Map/Map and Err/Err outcomes".into());
        }
    }
    let traces = acc.traces.len();
    let nontrivial = acc.nontrivial.len();
    let bsigs = acc.boundary_sigs.len();
    let ev = json!({
        "property_id": PROP, "tier": tier.name(), "seed": base_seed, "level": "exploration",
        "wall_s": wall, "violations": reported.len(),
        "coverage": {
            "evaluations": acc.runs,
            "distinct_nontrivial": nontrivial,
            "rule": "one evaluation = one simulated delivery of a stored document (fixture / synthetic regular, index, Hermes map / non-map / invalid, optionally damaged at rest) with a generated XSSI header through SimTransport+SimReader into one reader entry point, compared with the slice entry point on the delivered bytes D' and, where the header is clean and no content fault fired, with the header model; distinct = distinct (event trace, entry point, outcome) by 64-bit hash; non-trivial = a read boundary fell inside the header / inside \\r\\n / exactly at the header end, or a transport fault (EINTR, hard error, drop, duplicate, swap, flip, early EOF) fired",
            "samples": acc.samples.iter().map(|s| s.1.clone()).collect::<Vec<_>>(),
            "systematic_sweep_cases": sweep.len(),
            "seeded_runs": runs,
            "distinct_event_traces": traces,
            "distinct_boundary_signatures (header-automaton state at the end of each served read)": bsigs,
            "boundary_cells": acc.cells,
            "fault_kinds_fired": acc.fired,
            "absolute_oracle_evaluations": acc.abs_checked,
            "simulated_time": {"unit": "read calls served (the crate has no clock)", "read_calls": acc.read_calls, "bytes_delivered": acc.bytes},
            "entry_points": acc.entries,
            "document_kinds": acc.doc_kinds,
            "chunking_schedules": acc.chunkings,
            "header_newline_styles": acc.nls,
            "outcome_pairs (reader/slice)": acc.outcomes,
            "runs_per_hour": if wall > 0.0 { (acc.runs as f64 / wall * 3600.0) as u64 } else { 0 },
            "determinism_selftest": {"runs_executed_twice": acc.det_checked, "mismatches": 0, "batch_digest": format!("{:016x}", acc.digest)},
            "violating_runs_total": acc.violations.total(),
            "known_findings_hit": known,
            "reported": reported,
            "real_vs_stub": {
                "real": ["sourcemap decode, DecodedMap/SourceMap/SourceMapIndex/SourceMapHermes::from_reader, is_sourcemap, their slice counterparts, decode_data_url, StripHeaderReader, strip_junk_header (as shipped, guard off)", "std::io::BufReader", "serde_json", "data-encoding"],
                "stub": ["the Read object (SimReader scripted by the seed)", "the stored document and the transport (SimDisk/SimTransport)"]
            },
        },
        "assumptions": [
            "error kinds are not compared: the statement says 'an error on both sides'",
            "Interrupted is transparent (the Read contract); a non-retryable error may turn the reader path into an error, never into a different map",
            "the absolute header model is applied only to clean headers (no interior CR/LF), bodies that do not themselves start with a junk byte, and runs without content faults",
            "sampled, not exhaustive (the single- and double-split sweep over small documents is exhaustive for its own finite set)"
        ],
    });
    simcore::write_json_atomic(&simcore::evidence_path(PROP), &ev);
    println!(
        "runs={} read_calls={} traces={} nontrivial={} boundary_sigs={} abs_checked={} violating_runs={} wall={:.1}s digest={:016x}",
        acc.runs, acc.read_calls, traces, nontrivial, bsigs, acc.abs_checked, acc.violations.total(), wall, acc.digest
    );
    if !new.is_empty() {
        return 1;
    }
    if !probe_fail.is_empty() {
        harness_error(&format!("workload does not reach: {}", probe_fail.join("; ")));
    }
    0
}
