//! SimTransport / SimReader: the `Read` object handed to the library. A stored byte string is
//! cut into chunks by the seed; the transport may drop, duplicate or swap chunks, flip a bit
//! in flight or end the stream early; control events (`Interrupted`, one hard error) are
//! interleaved. The reader never breaks the `Read` contract: never more than `buf.len()`
//! bytes, and once it has reported end-of-stream it keeps reporting it.

use serde_json::{json, Value};
use simcore::hash::H64;
use simcore::rng::Rng;
use std::io::{self, Read};

#[derive(Clone, Debug, PartialEq, Eq)]
pub enum Event {
    Data(Vec<u8>),
    Interrupted,
    Error(ErrKind),
}

#[derive(Clone, Copy, Debug, PartialEq, Eq)]
pub enum ErrKind {
    Other,
    UnexpectedEof,
    ConnectionReset,
    WouldBlock,
    TimedOut,
    /// the kind the header stripper itself uses for "expected newline"
    InvalidData,
}

impl ErrKind {
    pub const ALL: [ErrKind; 6] = [ErrKind::Other, ErrKind::UnexpectedEof, ErrKind::ConnectionReset, ErrKind::WouldBlock, ErrKind::TimedOut, ErrKind::InvalidData];
    pub fn io(self) -> io::ErrorKind {
        match self {
            ErrKind::Other => io::ErrorKind::Other,
            ErrKind::UnexpectedEof => io::ErrorKind::UnexpectedEof,
            ErrKind::ConnectionReset => io::ErrorKind::ConnectionReset,
            ErrKind::WouldBlock => io::ErrorKind::WouldBlock,
            ErrKind::TimedOut => io::ErrorKind::TimedOut,
            ErrKind::InvalidData => io::ErrorKind::InvalidData,
        }
    }
    pub fn name(self) -> &'static str {
        match self {
            ErrKind::Other => "Other",
            ErrKind::UnexpectedEof => "UnexpectedEof",
            ErrKind::ConnectionReset => "ConnectionReset",
            ErrKind::WouldBlock => "WouldBlock",
            ErrKind::TimedOut => "TimedOut",
            ErrKind::InvalidData => "InvalidData",
        }
    }
    pub fn from_name(s: &str) -> Option<ErrKind> {
        ErrKind::ALL.iter().copied().find(|k| k.name() == s)
    }
}

/// How a stored byte string is cut into reads.
#[derive(Clone, Debug, PartialEq, Eq)]
pub enum Chunking {
    AllAtOnce,
    OneByte,
    /// a single split at offset p
    SplitAt(usize),
    /// random sizes with the given mean
    Geometric(usize),
    /// multiples / near-multiples of BufReader's 8192
    Near8k,
    /// one byte at a time up to `head`, geometric afterwards (keeps large documents affordable)
    FineHead(usize),
}

impl Chunking {
    pub fn name(&self) -> &'static str {
        match self {
            Chunking::AllAtOnce => "all-at-once",
            Chunking::OneByte => "one-byte",
            Chunking::SplitAt(_) => "single-split",
            Chunking::Geometric(_) => "geometric",
            Chunking::Near8k => "near-8192",
            Chunking::FineHead(_) => "fine-head",
        }
    }
}

pub fn cut(bytes: &[u8], how: &Chunking, rng: &mut Rng) -> Vec<Vec<u8>> {
    let n = bytes.len();
    let mut cuts: Vec<usize> = Vec::new();
    match how {
        Chunking::AllAtOnce => {}
        Chunking::OneByte => cuts.extend(1..n),
        Chunking::SplitAt(p) => {
            if *p > 0 && *p < n {
                cuts.push(*p)
            }
        }
        Chunking::Geometric(mean) => {
            let mut pos = 0usize;
            loop {
                let step = 1 + rng.below_usize(2 * (*mean).max(1));
                pos += step;
                if pos >= n {
                    break;
                }
                cuts.push(pos);
            }
        }
        Chunking::Near8k => {
            let mut pos = 0usize;
            loop {
                let k = 1 + rng.below_usize(2);
                let delta = *rng.pick(&[-2i64, -1, 0, 0, 1, 2]);
                let step = (8192 * k as i64 + delta).max(1) as usize;
                pos += step;
                if pos >= n {
                    break;
                }
                cuts.push(pos);
            }
        }
        Chunking::FineHead(head) => {
            let h = (*head).min(n);
            cuts.extend(1..h);
            let mut pos = h;
            if h > 0 && h < n {
                cuts.push(h);
            }
            loop {
                pos += 1 + rng.below_usize(4096);
                if pos >= n {
                    break;
                }
                cuts.push(pos);
            }
        }
    }
    cuts.dedup();
    let mut out = Vec::with_capacity(cuts.len() + 1);
    let mut prev = 0usize;
    for c in cuts {
        if c > prev && c < n {
            out.push(bytes[prev..c].to_vec());
            prev = c;
        }
    }
    if prev < n {
        out.push(bytes[prev..].to_vec());
    }
    out
}

#[derive(Clone, Debug, Default)]
pub struct TransportStats {
    pub dropped: u32,
    pub duplicated: u32,
    pub swapped: u32,
    pub flipped: u32,
    pub early_eof: u32,
    pub interrupted: u32,
    pub hard_error: u32,
}

/// Content faults applied to the chunk list (each changes the delivered bytes D').
#[derive(Clone, Copy, Debug, PartialEq, Eq)]
pub enum ContentFault {
    Drop,
    Duplicate,
    Swap,
    Flip,
    EarlyEof,
}

pub fn apply_content_fault(chunks: &mut Vec<Vec<u8>>, f: ContentFault, rng: &mut Rng, st: &mut TransportStats) {
    if chunks.is_empty() {
        return;
    }
    let i = rng.below_usize(chunks.len());
    match f {
        ContentFault::Drop => {
            chunks.remove(i);
            st.dropped += 1;
        }
        ContentFault::Duplicate => {
            let c = chunks[i].clone();
            chunks.insert(i, c);
            st.duplicated += 1;
        }
        ContentFault::Swap => {
            if chunks.len() >= 2 {
                let j = if i + 1 < chunks.len() { i + 1 } else { i - 1 };
                chunks.swap(i, j);
                st.swapped += 1;
            }
        }
        ContentFault::Flip => {
            if !chunks[i].is_empty() {
                let k = rng.below_usize(chunks[i].len());
                chunks[i][k] ^= 1 << rng.below(8);
                st.flipped += 1;
            }
        }
        ContentFault::EarlyEof => {
            chunks.truncate(i);
            if let Some(last) = chunks.last_mut() {
                let keep = rng.below_usize(last.len() + 1);
                last.truncate(keep);
                if last.is_empty() {
                    chunks.pop();
                }
            }
            st.early_eof += 1;
        }
    }
}

/// Interleave control events with the data chunks.
pub fn interleave(chunks: Vec<Vec<u8>>, eintr_pct: u64, hard: Option<(usize, ErrKind)>, rng: &mut Rng, st: &mut TransportStats) -> Vec<Event> {
    let n = chunks.len();
    let mut ev = Vec::with_capacity(n + 4);
    // one long burst of EINTR (a signal storm) somewhere in the stream, now and then
    let burst_at = if eintr_pct > 0 && rng.chance(1, 12) { Some((rng.below_usize(n + 1), *rng.pick(&[16usize, 64, 300]))) } else { None };
    for (i, c) in chunks.into_iter().enumerate() {
        if let Some((at, len)) = burst_at {
            if at == i {
                for _ in 0..len {
                    ev.push(Event::Interrupted);
                    st.interrupted += 1;
                }
            }
        }
        while eintr_pct > 0 && rng.chance(eintr_pct, 100) {
            ev.push(Event::Interrupted);
            st.interrupted += 1;
        }
        if let Some((at, kind)) = hard {
            if at == i {
                ev.push(Event::Error(kind));
                st.hard_error += 1;
            }
        }
        ev.push(Event::Data(c));
    }
    if let Some((at, kind)) = hard {
        if at >= n {
            ev.push(Event::Error(kind));
            st.hard_error += 1;
        }
    }
    while eintr_pct > 0 && rng.chance(eintr_pct, 100) {
        // EINTR right before end-of-stream
        ev.push(Event::Interrupted);
        st.interrupted += 1;
    }
    ev
}

pub fn delivered(events: &[Event]) -> Vec<u8> {
    let mut d = Vec::new();
    for e in events {
        if let Event::Data(c) = e {
            d.extend_from_slice(c);
        }
    }
    d
}

pub fn events_to_json(events: &[Event]) -> Value {
    Value::Array(
        events
            .iter()
            .map(|e| match e {
                Event::Data(c) => json!({"data": simcore::hash::hex(c)}),
                Event::Interrupted => json!({"interrupted": true}),
                Event::Error(k) => json!({"error": k.name()}),
            })
            .collect(),
    )
}

pub fn events_from_json(v: &Value) -> Option<Vec<Event>> {
    v.as_array()?
        .iter()
        .map(|e| {
            if let Some(d) = e.get("data") {
                Some(Event::Data(simcore::hash::unhex(d.as_str()?)?))
            } else if e.get("interrupted").is_some() {
                Some(Event::Interrupted)
            } else {
                Some(Event::Error(ErrKind::from_name(e.get("error")?.as_str()?)?))
            }
        })
        .collect()
}

pub fn events_hash(events: &[Event]) -> u64 {
    let mut h = H64::new();
    for e in events {
        match e {
            Event::Data(c) => {
                h.u64(1);
                h.bytes(c)
            }
            Event::Interrupted => h.u64(2),
            Event::Error(k) => {
                h.u64(3);
                h.u64(*k as u64)
            }
        }
    }
    h.finish()
}

/// What the reader observed while it was being read from.
#[derive(Clone, Debug, Default)]
pub struct ReadLog {
    /// sizes of the data reads served, in order (what the library actually received per call)
    pub served: Vec<u32>,
    pub read_calls: u64,
    pub zero_len_buf_calls: u64,
    pub polls_after_eof: u64,
    pub eof_reported: bool,
    pub hard_error_delivered: bool,
    pub interrupted_delivered: u32,
    pub budget_exceeded: bool,
    pub bytes_served: u64,
}

pub struct SimReader {
    events: std::collections::VecDeque<Event>,
    pub log: ReadLog,
    budget: u64,
    /// scribble over the unused tail of the caller's buffer (the `Read` contract promises nothing
    /// about `buf[n..]`, so a consumer must not look at it)
    pub poison: bool,
}

pub const POST_EOF_BUDGET: u64 = 1000;

impl SimReader {
    pub fn new(events: &[Event]) -> SimReader {
        let total: usize = events
            .iter()
            .map(|e| match e {
                Event::Data(c) => c.len(),
                _ => 1,
            })
            .sum();
        SimReader { events: events.iter().cloned().collect(), log: ReadLog::default(), budget: 16 * total as u64 + 10_000, poison: false }
    }
}

impl Read for SimReader {
    fn read(&mut self, buf: &mut [u8]) -> io::Result<usize> {
        self.log.read_calls += 1;
        if self.log.read_calls > self.budget {
            // deterministic hang detector: the library keeps polling without making progress
            self.log.budget_exceeded = true;
            return Err(io::Error::new(io::ErrorKind::Other, "simreader: read budget exceeded"));
        }
        if buf.is_empty() {
            self.log.zero_len_buf_calls += 1;
            return Ok(0);
        }
        if self.log.eof_reported {
            self.log.polls_after_eof += 1;
            if self.log.polls_after_eof > POST_EOF_BUDGET {
                self.log.budget_exceeded = true;
                return Err(io::Error::new(io::ErrorKind::Other, "simreader: polled too often after end of stream"));
            }
            return Ok(0);
        }
        loop {
            match self.events.pop_front() {
                None => {
                    self.log.eof_reported = true;
                    return Ok(0);
                }
                Some(Event::Interrupted) => {
                    self.log.interrupted_delivered += 1;
                    return Err(io::Error::new(io::ErrorKind::Interrupted, "simreader: EINTR"));
                }
                Some(Event::Error(k)) => {
                    self.log.hard_error_delivered = true;
                    return Err(io::Error::new(k.io(), "simreader: injected error"));
                }
                Some(Event::Data(c)) => {
                    if c.is_empty() {
                        continue; // an empty chunk would read as end-of-stream: never emit it
                    }
                    let n = c.len().min(buf.len());
                    buf[..n].copy_from_slice(&c[..n]);
                    if self.poison {
                        for (k, b) in buf[n..].iter_mut().enumerate().take(64) {
                            *b = if k % 2 == 0 { b'{' } else { 0xAA };
                        }
                    }
                    if n < c.len() {
                        self.events.push_front(Event::Data(c[n..].to_vec()));
                    }
                    self.log.served.push(n as u32);
                    self.log.bytes_served += n as u64;
                    return Ok(n);
                }
            }
        }
    }
}

// ---------------------------------------------------------------- header model

/// The harness's own model of the XSSI header rule, used (a) as the absolute oracle and
/// (b) to classify where read boundaries fall.
#[derive(Clone, Copy, Debug, PartialEq, Eq, PartialOrd, Ord)]
pub enum HState {
    Undecided,
    Junk,
    AwaitingNewline,
    PastHeader,
    Rejected,
}

pub fn is_junk_start(b: u8) -> bool {
    matches!(b, b')' | b']' | b'}' | b'\'')
}

pub fn hstep(s: HState, b: u8) -> HState {
    match s {
        HState::Undecided => {
            if is_junk_start(b) {
                HState::Junk
            } else {
                HState::PastHeader
            }
        }
        HState::Junk => match b {
            b'\r' => HState::AwaitingNewline,
            b'\n' => HState::PastHeader,
            _ => HState::Junk,
        },
        HState::AwaitingNewline => {
            if b == b'\n' {
                HState::PastHeader
            } else {
                HState::Rejected
            }
        }
        s => s,
    }
}

/// States at the end of each served read (until the header is over), plus flags for the
/// boundary cells DESIGN.md §4.3 names.
#[derive(Default, Clone, Debug)]
pub struct BoundarySig {
    pub states: Vec<HState>,
    pub inside_header: bool,
    pub inside_crlf: bool,
    pub exactly_at_header_end: bool,
    pub header_crosses_8192: bool,
    pub before_first_byte_decided: bool,
}

pub fn boundary_signature(delivered: &[u8], served: &[u32]) -> BoundarySig {
    let mut sig = BoundarySig::default();
    let mut s = HState::Undecided;
    let mut pos = 0usize;
    let mut header_len = None;
    // header length by the model
    {
        let mut t = HState::Undecided;
        for (i, &b) in delivered.iter().enumerate() {
            let was = t;
            t = hstep(t, b);
            if i == 0 && t == HState::PastHeader {
                header_len = Some(0);
                break;
            }
            if t == HState::PastHeader && was != HState::PastHeader {
                header_len = Some(i + 1);
                break;
            }
            if t == HState::Rejected {
                break;
            }
        }
    }
    for &n in served {
        let end = (pos + n as usize).min(delivered.len());
        for &b in &delivered[pos..end] {
            if s != HState::PastHeader && s != HState::Rejected {
                s = hstep(s, b);
            }
        }
        pos = end;
        sig.states.push(s);
        match s {
            HState::Junk => sig.inside_header = true,
            HState::AwaitingNewline => sig.inside_crlf = true,
            HState::PastHeader => {
                if let Some(h) = header_len {
                    if h > 0 && pos == h {
                        sig.exactly_at_header_end = true;
                    }
                }
            }
            _ => {}
        }
        if s == HState::PastHeader || s == HState::Rejected {
            break;
        }
    }
    if let Some(h) = header_len {
        if h > 8192 {
            sig.header_crosses_8192 = true;
        }
    }
    sig
}

pub fn boundary_hash(sig: &BoundarySig) -> u64 {
    let mut h = H64::new();
    for s in &sig.states {
        h.u64(*s as u64);
    }
    h.u64(sig.exactly_at_header_end as u64);
    h.u64(sig.header_crosses_8192 as u64);
    h.finish()
}

#[cfg(test)]
mod tests {
    use super::*;
    #[test]
    fn reader_contract() {
        let mut rng = Rng::new(1);
        let data: Vec<u8> = (0..100u8).collect();
        let chunks = cut(&data, &Chunking::Geometric(7), &mut rng);
        assert_eq!(chunks.concat(), data);
        let mut st = TransportStats::default();
        let ev = interleave(chunks, 30, None, &mut rng, &mut st);
        let mut r = SimReader::new(&ev);
        let mut got = Vec::new();
        let mut buf = [0u8; 5];
        loop {
            match r.read(&mut buf) {
                Ok(0) => break,
                Ok(n) => got.extend_from_slice(&buf[..n]),
                Err(e) if e.kind() == io::ErrorKind::Interrupted => continue,
                Err(e) => panic!("{e}"),
            }
        }
        assert_eq!(got, data);
        assert_eq!(r.read(&mut buf).unwrap(), 0);
    }
    #[test]
    fn model() {
        let run = |b: &[u8]| b.iter().fold(HState::Undecided, |s, &x| hstep(s, x));
        assert_eq!(run(b")]}'\n"), HState::PastHeader);
        assert_eq!(run(b")]}'\r\n"), HState::PastHeader);
        assert_eq!(run(b")]}'\r["), HState::Rejected);
        assert_eq!(run(b")]}'"), HState::Junk);
        assert_eq!(run(b"{"), HState::PastHeader);
    }
}
