//! Document zoo: the repository's fixtures plus synthetic regular / index / Hermes maps written
//! by a small JSON+VLQ emitter of the harness's own (it shares no code with the crate's
//! encoder), plus non-maps and invalid documents.

use simcore::rng::Rng;
use std::sync::Arc;

#[derive(Clone, Copy, Debug, PartialEq, Eq, PartialOrd, Ord)]
pub enum DocKind {
    FixtureMap,
    Inline,
    SynthRegular,
    SynthIndex,
    SynthHermes,
    NonMap,
    Invalid,
    Empty,
}

impl DocKind {
    pub fn name(self) -> &'static str {
        match self {
            DocKind::FixtureMap => "fixture",
            DocKind::Inline => "inline",
            DocKind::SynthRegular => "synthetic-regular",
            DocKind::SynthIndex => "synthetic-index",
            DocKind::SynthHermes => "synthetic-hermes",
            DocKind::NonMap => "non-map",
            DocKind::Invalid => "invalid",
            DocKind::Empty => "empty",
        }
    }
}

#[derive(Clone, Debug)]
pub struct Doc {
    pub bytes: Arc<Vec<u8>>,
    pub label: String,
    pub kind: DocKind,
}

pub struct Fixtures {
    pub maps: Vec<Doc>,
    /// JavaScript-ish files (for sourcemap reference discovery under C05)
    pub scripts: Vec<Doc>,
    /// indices into `maps` of the amplification documents (one long string, many references)
    pub amplify: Vec<usize>,
    /// indices into `maps` of the large documents (many lines, names, sources, sections, scopes)
    pub scale: Vec<usize>,
}

fn walk(dir: &std::path::Path, out: &mut Vec<std::path::PathBuf>) {
    let mut entries: Vec<_> = match std::fs::read_dir(dir) {
        Ok(rd) => rd.filter_map(|e| e.ok()).map(|e| e.path()).collect(),
        Err(_) => return,
    };
    entries.sort();
    for p in entries {
        if p.is_dir() {
            walk(&p, out);
        } else {
            out.push(p);
        }
    }
}

pub const INLINE_DOCS: &[(&str, &str)] = &[
    (
        "inline:basic",
        r#"{"version":3,"sources":["coolstuff.js"],"names":["x","alert"],"mappings":"AAAA,GAAIA,GAAI,EACR,IAAIA,GAAK,EAAG,CACVC,MAAM"}"#,
    ),
    (
        "inline:root",
        r#"{"version":3,"file":"out.js","sourceRoot":"x/","sources":["a.js","/abs.js","http://h/b.js"],"sourcesContent":["let a;\nfoo()",null,"b"],"names":[],"mappings":"AAAA;ACAA;;AAAA,KCCA"}"#,
    ),
    (
        "inline:index",
        r#"{"version":3,"file":"min.js","sections":[{"offset":{"line":0,"column":0},"map":{"version":3,"sources":["file1.js"],"names":["add","a","b"],"mappings":"AAAA,QAASA,KAAIC,EAAGC,GACf,YACA,OAAOD,GAAIC","file":"file1.min.js"}},{"offset":{"line":1,"column":0},"map":{"version":3,"sources":["file2.js"],"names":["multiply","a","b","divide","add","c","e","Raven","captureException"],"mappings":"AAAA,QAASA,UAASC,EAAGC,GACpB,YACA,OAAOD,GAAIC,EAEZ,QAASC,QAAOF,EAAGC,GAClB,YACA,KACC,MAAOF,UAASI,IAAIH,EAAGC,GAAID,EAAGC,GAAKG,EAClC,MAAOC,GACRC,MAAMC,iBAAiBF","file":"file2.min.js"}}]}"#,
    ),
    (
        "inline:index-url",
        r#"{"version":3,"sections":[{"offset":{"line":0,"column":5},"url":"http://example.com/a.map"},{"offset":{"line":3,"column":1},"map":{"version":3,"sources":["s.js"],"names":[],"mappings":"AAAA"}}],"x_facebook_offsets":[0,null,3],"x_metro_module_paths":["a","b"]}"#,
    ),
    (
        "inline:range",
        r#"{"version":3,"sources":["a.js"],"names":["n"],"rangeMappings":"B;;C","mappings":"AAAA,CAAC;;EAAA,GAACA"}"#,
    ),
    (
        "inline:hermes",
        r#"{"version":3,"sources":["input.js"],"names":["a"],"x_facebook_sources":[[{"names":["<global>","foo","bar"],"mappings":"AAA,OCA,GCC"}]],"mappings":"AAAA,CAACA;CACD"}"#,
    ),
    (
        "inline:debugid",
        r#"{"version":3,"sources":["a.js"],"names":[],"mappings":"AAAA","debug_id":"00000000-0000-0000-0000-000000000000","debugId":"11111111-1111-1111-1111-111111111111","ignoreList":[0]}"#,
    ),
];

impl Fixtures {
    pub fn load() -> Fixtures {
        let mut files = Vec::new();
        walk(std::path::Path::new("/repo/tests/fixtures"), &mut files);
        let mut maps = Vec::new();
        let mut amplify = Vec::new();
        let mut scale = Vec::new();
        let mut scripts = Vec::new();
        for p in files {
            let name = p.to_string_lossy().to_string();
            let rel = name.trim_start_matches("/repo/tests/fixtures/").to_string();
            let bytes = match std::fs::read(&p) {
                Ok(b) => b,
                Err(_) => continue,
            };
            if name.ends_with(".map") {
                maps.push(Doc { bytes: Arc::new(bytes), label: format!("fixture:{rel}"), kind: DocKind::FixtureMap });
            } else if name.ends_with(".js") || name.ends_with(".bundle") || name.ends_with(".jsbundle") {
                scripts.push(Doc { bytes: Arc::new(bytes), label: format!("fixture:{rel}"), kind: DocKind::NonMap });
            }
        }
        for (label, text) in INLINE_DOCS {
            maps.push(Doc { bytes: Arc::new(text.as_bytes().to_vec()), label: (*label).to_string(), kind: DocKind::Inline });
        }
        // deeply nested index maps (legal but unusual): recursion in decoding, flattening,
        // formatting, cloning and dropping; the deepest one exceeds serde_json's recursion limit
        for depth in [8usize, 35, 200] {
            let mut text = String::from(INLINE_DOCS[0].1);
            for d in 0..depth {
                text = format!("{{\"version\":3,\"sections\":[{{\"offset\":{{\"line\":{},\"column\":{}}},\"map\":{}}}]}}", d % 3, d % 5, text);
            }
            maps.push(Doc { bytes: Arc::new(text.into_bytes()), label: format!("inline:nested-index-depth-{depth}"), kind: DocKind::Inline });
        }
        // the same with a minimal innermost map, at the depths around serde_json's recursion
        // limit (each level adds three JSON nesting levels)
        for depth in [40usize, 41, 42, 43] {
            let mut text = String::from("{\"mappings\":\"\"}");
            for _ in 0..depth {
                text = format!("{{\"version\":3,\"sections\":[{{\"offset\":{{\"line\":0,\"column\":0}},\"map\":{}}}]}}", text);
            }
            maps.push(Doc { bytes: Arc::new(text.into_bytes()), label: format!("inline:nested-index-minimal-depth-{depth}"), kind: DocKind::Inline });
        }
        // "minified bundle" shape: one or two lines holding very many segments, with range flags
        // at far token positions (255, 256, 4095, ..., the last token)
        for segs in [300usize, 5_000, 70_000] {
            let mut m = String::with_capacity(segs * 5);
            for k in 0..segs {
                if k > 0 {
                    m.push(',');
                }
                m.push_str(if k == 0 { "AAAA" } else { "CAAC" });
            }
            m.push_str(";AAAA,EAAE");
            let mut bits = vec![0u8; segs / 6 + 1];
            for pos in [0usize, 17, 255, 256, 4095, 4096, 65_535, 65_536, segs - 1] {
                if pos < segs {
                    bits[pos / 6] |= 1 << (pos % 6);
                }
            }
            while bits.last() == Some(&0) {
                bits.pop();
            }
            let r: String = bits.iter().map(|&b| B64[b as usize] as char).collect();
            let text = format!("{{\"version\":3,\"sources\":[\"min.js\"],\"names\":[],\"mappings\":\"{m}\",\"rangeMappings\":\"{r};B\"}}");
            if segs >= 70_000 {
                scale.push(maps.len());
            }
            maps.push(Doc { bytes: Arc::new(text.into_bytes()), label: format!("inline:one-line-{segs}-segments"), kind: DocKind::Inline });
        }
        // scale: a few large documents with many generated lines (and a rangeMappings line per
        // generated line); sampled very rarely, they are what makes super-linear decoding or
        // query time visible to the wall-clock backstop
        for lines in [20_000usize, 60_000, 120_000] {
            let mut m = String::with_capacity(lines * 6);
            let mut r = String::with_capacity(lines * 2);
            for k in 0..lines {
                if k > 0 {
                    m.push(';');
                    r.push(';');
                }
                m.push_str(if k % 3 == 0 { "AAAA,CAAC" } else { "AACA" });
                if k % 5 == 0 {
                    r.push('B');
                }
            }
            let text = format!("{{\"version\":3,\"sources\":[\"a.js\"],\"names\":[],\"mappings\":\"{m}\",\"rangeMappings\":\"{r}\"}}");
            scale.push(maps.len());
            maps.push(Doc { bytes: Arc::new(text.into_bytes()), label: format!("inline:many-lines-{lines}"), kind: DocKind::Inline });
        }
        // amplification shapes: one long string and very many references to it. Memory that is
        // held per *reference* and per *byte of the string* (a copy of the string per token, per
        // scope, per source) grows with the product, i.e. quadratically in the document size;
        // these documents make that visible to the allocation monitor at 20..40 KB
        {
            let long: String = "a_rather_long_identifier_or_path_segment/".chars().cycle().take(8192).collect();
            let refs = 4000usize;
            let rep = |first: &str, next: &str| {
                let mut m = String::from(first);
                for k in 0..refs {
                    // mostly one generated line, with a line break now and then
                    m.push(if k % 50 == 49 { ';' } else { ',' });
                    m.push_str(next);
                }
                m
            };
            let mut amp: Vec<(&str, String)> = Vec::new();
            amp.push(("hermes-name-x-scopes", format!(
                "{{\"version\":3,\"sources\":[\"a.js\"],\"names\":[],\"mappings\":\"AAAA,CAAC\",\"x_facebook_sources\":[[{{\"names\":[\"{long}\",\"b\"],\"mappings\":\"{}\"}}]]}}",
                rep("AAA", "CAA").replace(';', ","))));
            amp.push(("hermes-name-x-scope-lines", format!(
                "{{\"version\":3,\"sources\":[\"a.js\"],\"names\":[],\"mappings\":\"AAAA,CAAC\",\"x_facebook_sources\":[[{{\"names\":[\"b\",\"{long}\"],\"mappings\":\"{}\"}}]]}}",
                rep("ACA", "CAC"))));
            amp.push(("name-x-tokens", format!(
                "{{\"version\":3,\"sources\":[\"a.js\"],\"names\":[\"{long}\"],\"mappings\":\"{}\"}}",
                rep("AAAAA", "CAACA"))));
            amp.push(("source-x-tokens", format!(
                "{{\"version\":3,\"sources\":[\"{long}\"],\"names\":[],\"mappings\":\"{}\"}}",
                rep("AAAA", "CAAC"))));
            let content: String = "let a_line_of_source_text = 1;\\n".chars().cycle().take(8192 / 33 * 33).collect();
            amp.push(("content-x-tokens", format!(
                "{{\"version\":3,\"sources\":[\"a.js\"],\"sourcesContent\":[\"{content}\"],\"names\":[\"n\"],\"mappings\":\"{}\"}}",
                rep("AAAAA", "CACAA"))));
            let many = |one: &str| {
                let mut v = String::new();
                for k in 0..refs {
                    if k > 0 {
                        v.push(',');
                    }
                    v.push_str(one);
                }
                v
            };
            amp.push(("sourceroot-x-sources", format!(
                "{{\"version\":3,\"sourceRoot\":\"{long}\",\"sources\":[{}],\"names\":[],\"mappings\":\"AAAA,CAAC\"}}",
                many("\"s\""))));
            // small enough to decode within the allocation limit; every source is referenced by a
            // token, so rewrite carries all of them (and their prefix) into the next generation
            let root2k = &long[..2048];
            amp.push(("sourceroot-x-referenced-sources", format!(
                "{{\"version\":3,\"sourceRoot\":\"{root2k}\",\"sources\":[{}],\"names\":[],\"mappings\":\"AAAA{}\"}}",
                (0..2500).map(|_| "\"s\"").collect::<Vec<_>>().join(","), ",CCAA".repeat(2499))));
            amp.push(("sourceroot-x-absolute-sources", format!(
                "{{\"version\":3,\"sourceRoot\":\"{long}\",\"sources\":[{}],\"names\":[],\"mappings\":\"AAAA,CAAC\"}}",
                many("\"/s\""))));
            amp.push(("index-sections-x-root", format!(
                "{{\"version\":3,\"file\":\"{long}\",\"sourceRoot\":\"{long}\",\"sections\":[{}]}}",
                (0..refs / 4).map(|k| format!("{{\"offset\":{{\"line\":{k},\"column\":0}},\"map\":{{\"version\":3,\"sources\":[\"s{}.js\"],\"names\":[],\"mappings\":\"AAAA\"}}}}", k % 7)).collect::<Vec<_>>().join(","))));
            for (name, text) in amp {
                amplify.push(maps.len());
                maps.push(Doc { bytes: Arc::new(text.into_bytes()), label: format!("inline:amplify-{name}"), kind: DocKind::Inline });
            }
        }
        // scale in the other dimensions (names, sources, sections, scopes, embedded contents,
        // ignore list): what makes time that is quadratic in one of them visible to the
        // wall-clock backstop. Sampled very rarely (and a little more often by C05 directly).
        {
            let mut sc: Vec<(String, String)> = Vec::new();
            let toks = |n: usize, first: &str, next: &str| {
                let mut m = String::with_capacity(n * 6);
                m.push_str(first);
                for k in 1..n {
                    m.push(if k % 100 == 0 { ';' } else { ',' });
                    // after a line break the generated column starts again at 0
                    if k % 100 == 0 {
                        m.push('A');
                        m.push_str(&next[1..]);
                    } else {
                        m.push_str(next);
                    }
                }
                m
            };
            let list = |n: usize, f: &dyn Fn(usize) -> String| (0..n).map(f).collect::<Vec<_>>().join(",");
            let n = 150_000usize;
            sc.push((format!("names-{n}"), format!(
                "{{\"version\":3,\"sources\":[\"a.js\"],\"names\":[{}],\"mappings\":\"{}\"}}",
                list(n, &|k| format!("\"n{k}\"")), toks(n, "AAAAA", "CAACC"))));
            let n = 60_000usize;
            sc.push((format!("sources-{n}"), format!(
                "{{\"version\":3,\"sources\":[{}],\"names\":[],\"mappings\":\"{}\"}}",
                list(n, &|k| format!("\"src/m{}/s{k}.js\"", k % 97)), toks(n, "AAAA", "CCAA"))));
            let n = 20_000usize;
            sc.push((format!("sources-with-contents-{n}"), format!(
                "{{\"version\":3,\"sources\":[{}],\"sourcesContent\":[{}],\"names\":[\"f\"],\"mappings\":\"{}\"}}",
                list(n, &|k| format!("\"s{k}.js\"")), list(n, &|k| if k % 9 == 0 { "null".into() } else { format!("\"function f{k}(){{}}\\nvar v{k};\"") }), toks(n, "AAAAA", "CCAAA"))));
            let n = 40_000usize;
            sc.push((format!("sections-{n}"), format!(
                "{{\"version\":3,\"sections\":[{}]}}",
                list(n, &|k| format!("{{\"offset\":{{\"line\":{k},\"column\":0}},\"map\":{{\"version\":3,\"sources\":[\"s{}.js\"],\"names\":[\"n{}\"],\"mappings\":\"AAAAA,CAAC\"}}}}", k % 1000, k % 777)))));
            let n = 150_000usize;
            let mut hm = String::with_capacity(n * 4);
            for k in 0..n {
                if k > 0 {
                    hm.push(if k % 3 == 0 { ';' } else { ',' });
                }
                // column, name index delta (cycling through the names), line delta
                if k == 0 {
                    hm.push_str("AAA");
                } else if k % 200 == 0 {
                    hm.push('C');
                    vlq(&mut hm, -199);
                    hm.push('C');
                } else {
                    hm.push_str("CCC");
                }
            }
            sc.push((format!("hermes-scopes-{n}"), format!(
                "{{\"version\":3,\"sources\":[\"a.js\"],\"names\":[],\"mappings\":\"{}\",\"x_facebook_sources\":[[{{\"names\":[{}],\"mappings\":\"{hm}\"}}]]}}",
                toks(20_000, "AAAA", "CACA"), list(200, &|k| format!("\"fn{k}\"")))));
            let n = 100_000usize;
            sc.push((format!("ignore-list-{n}"), format!(
                "{{\"version\":3,\"sources\":[\"a.js\",\"b.js\"],\"names\":[],\"mappings\":\"AAAA,CCAA\",\"ignoreList\":[{}]}}",
                list(n, &|k| format!("{}", (k * 7919) % 200_003)))));
            // one large embedded text on the last of three sources, and very many tokens on it:
            // work per token that is proportional to the text (a copy, a scan) becomes minutes
            let n = 200_000usize;
            let big: String = "function f(a, b) { return a + b; } // line of a larger bundle\\n".chars().cycle().take(4 * 1024 * 1024 / 62 * 62).collect();
            sc.push((format!("contents-4m-x-{n}-tokens"), format!(
                "{{\"version\":3,\"sources\":[\"a.js\",\"b.js\",\"c.js\"],\"sourcesContent\":[null,null,\"{big}\"],\"names\":[\"f\"],\"mappings\":\"{}\"}}",
                toks(n, "AEAAA", "CAACA"))));
            for (name, text) in sc {
                scale.push(maps.len());
                maps.push(Doc { bytes: Arc::new(text.into_bytes()), label: format!("inline:scale-{name}"), kind: DocKind::Inline });
            }
        }
        if maps.len() < 10 {
            simcore::harness_error("fixture maps under /repo/tests/fixtures not found");
        }
        Fixtures { maps, scripts, amplify, scale }
    }
}

// ---------------------------------------------------------------- emitter

const B64: &[u8; 64] = b"ABCDEFGHIJKLMNOPQRSTUVWXYZabcdefghijklmnopqrstuvwxyz0123456789+/";

pub fn vlq(out: &mut String, v: i64) {
    let mut x: u64 = if v < 0 { ((-(v as i128)) as u64) << 1 | 1 } else { (v as u64) << 1 };
    loop {
        let mut d = (x & 31) as usize;
        x >>= 5;
        if x != 0 {
            d |= 32;
        }
        out.push(B64[d] as char);
        if x == 0 {
            break;
        }
    }
}

pub fn base64(data: &[u8]) -> String {
    let mut out = String::with_capacity((data.len() + 2) / 3 * 4);
    for c in data.chunks(3) {
        let b = [c[0], *c.get(1).unwrap_or(&0), *c.get(2).unwrap_or(&0)];
        let n = (b[0] as u32) << 16 | (b[1] as u32) << 8 | b[2] as u32;
        out.push(B64[(n >> 18) as usize & 63] as char);
        out.push(B64[(n >> 12) as usize & 63] as char);
        out.push(if c.len() > 1 { B64[(n >> 6) as usize & 63] as char } else { '=' });
        out.push(if c.len() > 2 { B64[n as usize & 63] as char } else { '=' });
    }
    out
}

thread_local! {
    /// while set, string *values* are written with a third of their characters as \\uXXXX escapes
    /// (astral characters as escaped surrogate pairs): the same document, another spelling
    static ESCAPE_VALUES: std::cell::Cell<bool> = const { std::cell::Cell::new(false) };
}

fn jstr(s: &str) -> String {
    if !ESCAPE_VALUES.with(|e| e.get()) {
        return serde_json::to_string(s).unwrap();
    }
    let mut out = String::from("\"");
    for (i, ch) in s.chars().enumerate() {
        let esc = (i * 7 + s.len()) % 3 == 0;
        if ch == '"' || ch == '\\' {
            out.push('\\');
            out.push(ch);
        } else if (ch as u32) < 0x20 {
            out.push_str(&format!("\\u{:04x}", ch as u32));
        } else if ch == '/' && esc {
            out.push_str("\\/");
        } else if esc {
            let mut buf = [0u16; 2];
            for u in ch.encode_utf16(&mut buf) {
                out.push_str(&format!("\\u{:04x}", u));
            }
        } else {
            out.push(ch);
        }
    }
    out.push('"');
    out
}

// names with multi-byte characters at every small byte offset (code that slices names at a
// fixed offset must land inside a character for some of them), schemes in mixed case, Windows paths
const WORDS: [&str; 46] = [
    "a.js", "b/c.js", "/abs/d.js", "http://h/e.js", "", "ünï.js", "x\"y.js", "foo", "bar", "function", "€", "👌",
    "aé.js", "abé.js", "abcé.js", "src/é.js", "src/a€.js", "lib/ab👌.js", "日本語.js", "abcd👌e", "HTTP://H/x.js", "Https://h/é",
    "C:\\dir\\f.js", "a/b/../c.js", "/", "//x", "http:", "https:/é", "abcdef€", "ab/cd/ef/gh.js",
    "/srv/app/src/é.js", "/srv/app/src/a.js", "/srv/app/lib/b.js", "/srv/app/lib/深/c.js", "/srv/app", "C:\\p\\a.js", "C:\\p\\q\\b.js", "src/lib/x.js",
    // the same Windows paths in the other spelling, mixed separators, a bare drive directory, UNC
    "C:/p/a.js", "C:/p/q/b.js", "C:\\p/q\\b.js", "C:\\p", "C:/p", "c:\\p\\a.js", "\\\\srv\\share\\a.js", "C:\\p\\",
];

fn word(rng: &mut Rng) -> &'static str {
    *rng.pick(&WORDS[..])
}

/// an embedded source of 45 lines mixing terminators, multi-byte and astral characters at small
/// columns, so that original positions drawn from 0..40 x 0..60 land inside real text
const LONG_CONTENT: &str = "function a(){}\nvar é = 1;\r\nlet 👌x = function b(){};\rconst c = () => {};\n\n// 日本語 comment\nfunction d(e, f) { return e + f }\r\n\r\nclass G { h() {} }\n  indented();\n\tTabbed();\nfunction i(){}\nvar j;\nvar k;\nvar l;\rvar m;\rvar n;\nfoo(bar(baz()));\n'string with 👌 inside';\n\"é\";\nfunction o(){}\nfunction p(){}\nfunction q(){}\r\nfunction r(){}\nfunction s(){}\nx\ny\nz\n0\n1\n2\n3\n4\n5\n6\n7\n8\n9\nfunction t(){}\nlast line without terminator";

struct Emit<'r> {
    rng: &'r mut Rng,
    /// write some characters of object keys as \\uXXXX escapes (legal JSON, same document)
    escape_keys: bool,
}

/// A JSON string literal for `k` with roughly every third ASCII letter escaped as \\u00XX.
fn jstr_escaped(k: &str, rng: &mut Rng) -> String {
    let mut out = String::from("\"");
    for ch in k.chars() {
        if ch.is_ascii_alphabetic() && rng.chance(1, 3) {
            out.push_str(&format!("\\u{:04x}", ch as u32));
        } else if ch == '"' || ch == '\\' {
            out.push('\\');
            out.push(ch);
        } else {
            out.push(ch);
        }
    }
    out.push('"');
    out
}

impl Emit<'_> {
    /// mappings string with `nsrc` sources and `nnames` names available; mostly valid.
    fn mappings(&mut self, nsrc: u32, nnames: u32, allow_bad: bool) -> (String, Vec<Vec<bool>>) {
        let rng = &mut *self.rng;
        let nlines = rng.small(6);
        let allow_extreme = rng.chance(1, 3);
        let long_lines = rng.chance(1, 10);
        let mid_range = rng.chance(1, 6);
        let backward_steps = rng.chance(1, 8);
        let mut out = String::new();
        let mut ranges = Vec::new();
        let (mut src, mut sl, mut sc, mut nm) = (0i64, 0i64, 0i64, 0i64);
        for l in 0..nlines {
            if l > 0 {
                out.push(';');
            }
            // mostly short lines; some documents carry long ones (16..40 segments) so that token
            // positions 16, 32, ... on a line exist (range flags are stored in 6-bit groups,
            // written in 16-bit words)
            let nseg = if long_lines && rng.chance(1, 2) { rng.range_usize(14, 40) } else { rng.small(5) };
            // a long run of tokens at one and the same generated position (legal: several
            // original positions for one generated one); lookups that hit it exactly have to walk
            // back over the whole run
            let same_pos_run = long_lines && rng.chance(1, 3);
            let nseg = if same_pos_run { rng.range_usize(17, 70) } else { nseg };
            let mut col = 0i64;
            let mut burst = 0u32;
            let mut burst_sign = 1i64;
            let mut line_ranges = Vec::new();
            for s in 0..nseg {
                if s > 0 {
                    out.push(',');
                }
                // exact repetition of the previous segment (all-zero deltas): the serialiser drops
                // exact consecutive duplicates while range-bit positions still count them
                if s > 0 && !same_pos_run && rng.chance(1, 14) {
                    let f = *rng.pick(&[1u8, 4, 5]);
                    if f == 1 || nsrc > 0 {
                        out.push_str(match f {
                            1 => "A",
                            4 => "AAAA",
                            _ => {
                                if nnames > 0 {
                                    "AAAAA"
                                } else {
                                    "AAAA"
                                }
                            }
                        });
                        line_ranges.push(rng.chance(1, 8));
                        continue;
                    }
                }
                let ncol = if s == 0 {
                    rng.below(6) as i64
                } else if same_pos_run {
                    col
                } else if mid_range && rng.chance(1, 3) {
                    // mid-range steps: VLQs of 2..5 digits, columns in the thousands and millions
                    col + *rng.pick(&[9i64, 15, 16, 31, 32, 500, 1023, 1024, 40_000, 1 << 20]) + rng.below(7) as i64
                } else if backward_steps && col > 0 && rng.chance(1, 4) {
                    // a plain small step backwards: well-formed, but the tokens arrive unsorted
                    col - 1 - rng.below(col.min(9) as u64) as i64
                } else {
                    col + rng.below(8) as i64
                };
                if allow_extreme && burst == 0 && rng.chance(1, 40) {
                    // a burst of 2..4 consecutive same-sign deltas near the 62-bit limit
                    burst = 2 + rng.below(3) as u32;
                    burst_sign = if rng.chance(1, 2) { 1 } else { -1 };
                }
                if burst > 0 {
                    burst -= 1;
                    let d = burst_sign * *rng.pick(&[1i64 << 62, (1 << 62) - 1, 1 << 61, (1 << 62) - (1 << 32)]);
                    vlq(&mut out, d);
                    col = ((col as i128 + d as i128).rem_euclid(1 << 32)) as i64;
                } else if allow_extreme && rng.chance(1, 30) {
                    // legal but unusual: a column delta so large that the 32-bit running column wraps
                    let d = *rng.pick(&[(1i64 << 32) - 1, (1 << 32) - 3, 1 << 31, (1 << 32) + 2, -(1i64 << 31)]);
                    vlq(&mut out, d);
                    col = (col + d).rem_euclid(1 << 32);
                } else {
                    vlq(&mut out, ncol - col);
                    col = ncol;
                }
                let fields = if nsrc == 0 { 1 } else { *rng.pick(&[1u8, 4, 4, 4, 5, 5]) };
                if fields >= 4 {
                    let nsrc_id = rng.below(nsrc as u64) as i64;
                    vlq(&mut out, nsrc_id - src);
                    src = nsrc_id;
                    if burst > 0 && rng.chance(1, 2) {
                        // the burst also hits the original line / column running sums
                        let d = burst_sign * (1i64 << 62);
                        vlq(&mut out, d);
                        sl = ((sl as i128 + d as i128).rem_euclid(1 << 32)) as i64;
                        vlq(&mut out, d);
                        sc = ((sc as i128 + d as i128).rem_euclid(1 << 32)) as i64;
                        if fields == 5 && nnames > 0 {
                            let nnm = rng.below(nnames as u64) as i64;
                            vlq(&mut out, nnm - nm);
                            nm = nnm;
                        } else if fields == 5 && allow_bad {
                            vlq(&mut out, 1);
                        }
                        line_ranges.push(rng.chance(1, 8));
                        continue;
                    }
                    let nsl = if rng.chance(1, 24) {
                        *rng.pick(&[0i64, 1 << 31, (1 << 32) - 1, (1 << 32) - 2])
                    } else if mid_range && rng.chance(1, 3) {
                        *rng.pick(&[100i64, 2000, 65_535, 65_536, 1_000_000])
                    } else {
                        rng.below(40) as i64
                    };
                    vlq(&mut out, nsl - sl);
                    sl = nsl;
                    let nsc = if rng.chance(1, 24) { *rng.pick(&[0i64, 1 << 31, (1 << 32) - 1]) } else { rng.below(60) as i64 };
                    vlq(&mut out, nsc - sc);
                    sc = nsc;
                    if fields == 5 && nnames > 0 {
                        let nnm = rng.below(nnames as u64) as i64;
                        vlq(&mut out, nnm - nm);
                        nm = nnm;
                    } else if fields == 5 && allow_bad {
                        vlq(&mut out, 1);
                    }
                }
                line_ranges.push(rng.chance(1, 8));
            }
            ranges.push(line_ranges);
        }
        if allow_bad && rng.chance(1, 10) {
            // a structurally bad tail: dangling continuation, 2/3-field segment, foreign byte
            out.push_str(*rng.pick(&[",g", ",AA", ",AAA", ";AAAAAA", ",A!A", ",////////////////"]));
        }
        (out, ranges)
    }

    fn range_mappings(&mut self, ranges: &[Vec<bool>]) -> String {
        let mut out = String::new();
        for (i, line) in ranges.iter().enumerate() {
            if i > 0 {
                out.push(';');
            }
            let mut bits: Vec<bool> = line.clone();
            while bits.last() == Some(&false) {
                bits.pop();
            }
            for c in bits.chunks(6) {
                let mut v = 0usize;
                for (k, b) in c.iter().enumerate() {
                    if *b {
                        v |= 1 << k;
                    }
                }
                out.push(B64[v] as char);
            }
        }
        out
    }

    fn regular(&mut self, depth: u32, hermes: bool) -> String {
        // a handful of sources and names; one document in ten has dozens to hundreds (multi-digit
        // VLQ ids, larger intern tables)
        let many = self.rng.chance(1, 10);
        let nsrc = if many { self.rng.range(16, 120) as u32 } else { self.rng.small(4) as u32 };
        let nnames = if many { self.rng.range(16, 300) as u32 } else { self.rng.small(4) as u32 };
        let allow_bad = self.rng.chance(1, 12);
        let (mappings, ranges) = self.mappings(nsrc, nnames, allow_bad);
        let mut keys: Vec<(String, String)> = Vec::new();
        let rng = &mut *self.rng;
        // every field takes each of its shapes now and then: absent / null / empty / typical /
        // extreme / wrong type (the last ones make the document undecodable, which is fine: the
        // rejection path is part of the workload)
        match rng.below(20) {
            0 | 1 => {}
            2 => keys.push(("version".into(), (*rng.pick(&["0", "4294967295", "null", "\"3\"", "3.0", "-1", "4294967296"])).into())),
            _ => keys.push(("version".into(), "3".into())),
        }
        match rng.below(10) {
            0 | 1 => {}
            2 => keys.push(("file".into(), (*rng.pick(&["17", "null", "true", "{}", "[\"a\"]", "1e400"])).into())),
            _ => keys.push(("file".into(), jstr(word(rng)))),
        }
        if rng.chance(1, 3) {
            if rng.chance(1, 12) {
                keys.push(("sourceRoot".into(), "null".into()));
            } else {
                keys.push(("sourceRoot".into(), jstr(*rng.pick(&["", "root", "root/", "/r", "http://x/y/", "r//", "/", "é/", "HTTP://X/", "C:\\r"]))));
            }
        }
        let sources: Vec<String> = (0..nsrc).map(|_| if rng.chance(1, 10) { "null".into() } else { jstr(word(rng)) }).collect();
        if nsrc > 0 || !rng.chance(1, 4) {
            keys.push(("sources".into(), format!("[{}]", sources.join(","))));
        } else if rng.chance(1, 3) {
            keys.push(("sources".into(), "null".into()));
        }
        if rng.chance(1, 2) {
            let n = if rng.chance(1, 6) { rng.small(5) as u32 } else { nsrc };
            let items: Vec<String> = (0..n)
                .map(|_| {
                    if rng.chance(1, 4) {
                        "null".into()
                    } else {
                        jstr(*rng.pick(&[
                            "",
                            "function foo(){}\n",
                            "var x = function a(b) { return b }\r\nx()",
                            "é👌\n\n",
                            "//# sourceMappingURL=x.map",
                            "function 👌a(){};function b👌(){};var c=function d(){}",
                            "\r",
                            "a\rb\r",
                            "x=function(){return function y(){}}();                                                                                function z(){}",
                            "//# sourceURL=/home/émilie/app.js\nfunction f(){}",
                            LONG_CONTENT,
                        ]))
                    }
                })
                .collect();
            keys.push(("sourcesContent".into(), format!("[{}]", items.join(","))));
        } else if rng.chance(1, 20) {
            keys.push(("sourcesContent".into(), "null".into()));
        }
        let names: Vec<String> = (0..nnames)
            .map(|_| match rng.below(10) {
                0 => "12".into(),
                1 => "null".into(),
                2 => (*rng.pick(&["1.5", "true", "{}", "[1]", "-0", "1e308", "18446744073709551616"])).into(),
                _ => jstr(word(rng)),
            })
            .collect();
        if nnames > 0 || !rng.chance(1, 4) {
            keys.push(("names".into(), format!("[{}]", names.join(","))));
        } else if rng.chance(1, 3) {
            keys.push(("names".into(), "null".into()));
        }
        match rng.below(24) {
            0 | 1 => {}
            2 => keys.push(("mappings".into(), (*rng.pick(&["null", "17", "[]"])).into())),
            _ => keys.push(("mappings".into(), jstr(&mappings))),
        }
        if ranges.iter().any(|l| l.iter().any(|b| *b)) && rng.chance(2, 3) {
            let rm = self.range_mappings(&ranges);
            keys.push(("rangeMappings".into(), jstr(&rm)));
        } else if rng.chance(1, 16) {
            // not derived from the mappings: more lines than the mappings have, characters at the
            // edge of the alphabet, one outside it, or not a string at all
            keys.push(("rangeMappings".into(), (*rng.pick(&["\"/\"", "\"+;9;/\"", "\";;;;;;;;B\"", "\"//////\"", "\"A\"", "\"B!\"", "\"\"", "null", "\"g;g;g\""])).into()));
        }
        let rng = &mut *self.rng;
        if rng.chance(1, 5) {
            let items: Vec<String> = (0..rng.small(4))
                .map(|_| if rng.chance(1, 6) { (*rng.pick(&["4294967295", "2147483648", "0", "0"])).to_string() } else { rng.below(nsrc as u64 + 2).to_string() })
                .collect();
            keys.push(("ignoreList".into(), format!("[{}]", items.join(","))));
        } else if rng.chance(1, 40) {
            keys.push(("ignoreList".into(), (*rng.pick(&["null", "[null]", "[-1]", "[4294967296]"])).into()));
        }
        const IDS: [&str; 9] = [
            "00000000-0000-0000-0000-000000000000",
            "9f6a8e2e-3c4b-4d5e-8f7a-1b2c3d4e5f60",
            "9F6A8E2E-3C4B-4D5E-8F7A-1B2C3D4E5F60",
            "9f6a8e2e3c4b4d5e8f7a1b2c3d4e5f60",
            "9f6a8e2e-3c4b-4d5e-8f7a-1b2c3d4e5f60-a",
            "9f6a8e2e-3c4b-4d5e-8f7a-1b2c3d4e5f60-ffffffff",
            "9f6a8e2e3c4b4d5e8f7a1b2c3d4e5f60a",
            "not-a-debug-id",
            "",
        ];
        if rng.chance(1, 5) {
            keys.push(("debug_id".into(), if rng.chance(1, 16) { "null".into() } else { jstr(*rng.pick(&IDS[..])) }));
        }
        if rng.chance(1, 5) {
            keys.push(("debugId".into(), if rng.chance(1, 16) { "17".into() } else { jstr(*rng.pick(&IDS[..])) }));
        }
        if hermes {
            // usually one entry per source; sometimes fewer or more (the format does not tie them)
            let nfb = match rng.below(6) {
                0 => rng.below(nsrc as u64 + 1) as u32,
                1 => nsrc + 1,
                _ => nsrc.max(1),
            };
            let items: Vec<String> = (0..nfb)
                .map(|_| {
                    if rng.chance(1, 5) {
                        "null".into()
                    } else if rng.chance(1, 10) {
                        "[]".into()
                    } else {
                        let nn = if rng.chance(1, 8) { 0 } else { 1 + rng.small(3) };
                        let names: Vec<String> = (0..nn).map(|_| jstr(word(rng))).collect();
                        let col_only = rng.chance(1, 6);
                        let mut m = String::new();
                        let nl = if rng.chance(1, 20) { rng.range_usize(40, 200) } else { rng.small(3) };
                        for l in 0..=nl {
                            if l > 0 {
                                m.push(';');
                            }
                            for s in 0..rng.small(3) {
                                if s > 0 {
                                    m.push(',');
                                }
                                let wild = rng.chance(1, 12);
                                let pick_wild = |rng: &mut Rng| *rng.pick(&[-1i64, -5, 1 << 31, -(1 << 31), (1 << 32) - 1, -((1 << 32) - 1), 70_000]);
                                vlq(&mut m, if wild { pick_wild(rng) } else { rng.below(20) as i64 });
                                if !col_only && rng.chance(3, 4) {
                                    vlq(&mut m, if wild { pick_wild(rng) } else { rng.below(nn as u64 + 1) as i64 - 1 });
                                    if rng.chance(2, 3) {
                                        vlq(&mut m, if wild { pick_wild(rng) } else { rng.below(5) as i64 });
                                    }
                                }
                            }
                        }
                        let first = format!("{{\"names\":[{}],\"mappings\":{}}}", names.join(","), jstr(&m));
                        if rng.chance(1, 6) {
                            // further metadata objects after the function map
                            format!("[{first},{{\"names\":[\"other\"],\"mappings\":\"AAA\"}},{{\"names\":[],\"mappings\":\"\"}}]")
                        } else {
                            format!("[{first}]")
                        }
                    }
                })
                .collect();
            keys.push(("x_facebook_sources".into(), format!("[{}]", items.join(","))));
        }
        if rng.chance(1, 5) {
            // keys the decoder ignores, with string values of their own (a decoder must neither
            // trip over them nor treat them differently on its different paths)
            keys.push(((*rng.pick(&["x_unknown_extension", "x_comment", "x_google_linecount", "generator"])).into(),
                (*rng.pick(&["{\"a\":[1,2,{\"b\":null}]}", "\"generated by an unknown tool, version one point two\"", "{\"note\":\"some longer text value here\",\"n\":[\"abcdefghij\",\"klmnopqrst\"]}", "[\"alpha\",\"beta\",\"gamma\",\"delta\"]", "17"])).into()));
        }
        let _ = depth;
        self.object(keys)
    }

    fn index(&mut self, depth: u32) -> String {
        // a few sections; rarely dozens to hundreds of tiny ones (what RAM-bundle maps look
        // like), with runs of sections sharing one offset
        let many_sections = depth == 0 && self.rng.chance(1, 25);
        let nsec = if many_sections { self.rng.range_usize(20, 400) } else { self.rng.small(4) };
        let mut secs = Vec::new();
        let mut same_run = 0u32;
        let (mut line, mut col) = (0u64, 0u64);
        for _ in 0..nsec {
            let rng = &mut *self.rng;
            if many_sections {
                if same_run > 0 {
                    same_run -= 1;
                } else {
                    line += 1;
                    if rng.chance(1, 12) {
                        same_run = rng.range(4, 40) as u32;
                    }
                }
                let off = format!("{{\"line\":{line},\"column\":0}}");
                secs.push(format!("{{\"offset\":{off},\"map\":{{\"version\":3,\"sources\":[\"a.js\"],\"sourcesContent\":[\"x\"],\"names\":[],\"mappings\":\"AAAA\"}}}}"));
                continue;
            }
            if rng.chance(2, 3) {
                line += rng.below(4);
            }
            if rng.chance(1, 40) {
                line = *rng.pick(&[4294967295u64, 2147483648, 4294967294]);
            }
            col = if rng.chance(1, 16) { *rng.pick(&[(1u64 << 32) - 1, 1 << 31]) } else { rng.below(30) };
            let off = format!("{{\"line\":{line},\"column\":{col}}}");
            let body = match rng.below(12) {
                8 => "\"map\":null".to_string(),
                9 => format!("\"url\":{},\"map\":{}", jstr("a.map"), self.regular(depth + 1, false)),
                10 => format!("\"url\":{}", jstr(*self.rng.pick(&["", "é.map", "data:application/json;base64,e30=", "//x/y.map"]))),
                11 => "\"url\":null".to_string(),
                0 => format!("\"url\":{}", jstr("http://example.com/x.map")),
                1 if depth < 2 => format!("\"map\":{}", self.index(depth + 1)),
                2 => format!("\"map\":{}", self.regular(depth + 1, true)),
                _ => format!("\"map\":{}", self.regular(depth + 1, false)),
            };
            let rng = &mut *self.rng;
            if rng.chance(1, 2) {
                secs.push(format!("{{\"offset\":{off},{body}}}"));
            } else {
                secs.push(format!("{{{body},\"offset\":{off}}}"));
            }
            if rng.chance(1, 10) {
                line = line.saturating_sub(2); // out-of-order sections
            }
        }
        let rng = &mut *self.rng;
        let mut keys: Vec<(String, String)> = vec![("sections".into(), format!("[{}]", secs.join(",")))];
        if !rng.chance(1, 8) {
            keys.push(("version".into(), "3".into()));
        }
        match rng.below(10) {
            0..=4 => keys.push(("file".into(), jstr(word(rng)))),
            5 => keys.push(("file".into(), (*rng.pick(&["17", "null", "true", "{}", "[\"a\"]"])).into())),
            _ => {}
        }
        if rng.chance(1, 4) {
            keys.push(("x_facebook_offsets".into(), (*rng.pick(&["[0,null,12,4294967295]", "[]", "[null]", "[null,null,null]", "[0]", "[null,5]", "[7,null]", "null"])).into()));
        }
        if rng.chance(1, 4) {
            keys.push(("x_metro_module_paths".into(), (*rng.pick(&["[\"a.js\",\"b.js\"]", "[]", "[\"\"]", "[\"é\"]", "null"])).into()));
        }
        if rng.chance(1, 10) {
            keys.push(("mappings".into(), jstr("AAAA")));
        }
        self.object(keys)
    }

    fn object(&mut self, mut keys: Vec<(String, String)>) -> String {
        let rng = &mut *self.rng;
        // shuffle
        for i in (1..keys.len()).rev() {
            let j = rng.below_usize(i + 1);
            keys.swap(i, j);
        }
        let (sep, colon, open, close) = match rng.below(4) {
            0 => (",\n  ", ": ", "{\n  ", "\n}"),
            1 => (", ", ":", "{ ", " }"),
            _ => (",", ":", "{", "}"),
        };
        let mut s = String::from(open);
        for (i, (k, v)) in keys.iter().enumerate() {
            if i > 0 {
                s.push_str(sep);
            }
            if self.escape_keys {
                let lit = jstr_escaped(k, &mut *self.rng);
                s.push_str(&lit);
            } else {
                s.push_str(&jstr(k));
            }
            s.push_str(colon);
            s.push_str(v);
        }
        s.push_str(close);
        s
    }
}

pub fn synth(rng: &mut Rng, kind: DocKind) -> Doc {
    let escape_keys = rng.chance(1, 12);
    ESCAPE_VALUES.with(|e| e.set(rng.chance(1, 12)));
    let mut e = Emit { rng, escape_keys };
    let mut text = match kind {
        DocKind::SynthRegular => e.regular(0, false),
        DocKind::SynthHermes => e.regular(0, true),
        DocKind::SynthIndex => e.index(0),
        _ => unreachable!(),
    };
    ESCAPE_VALUES.with(|e| e.set(false));
    // leading / trailing whitespace around the document
    match rng.below(8) {
        0 => text.insert(0, ' '),
        1 => text.insert(0, '\n'),
        2 => text.push('\n'),
        3 => text.insert_str(0, "\r\n\t"),
        _ => {}
    }
    Doc { bytes: Arc::new(text.into_bytes()), label: format!("{}#{}", kind.name(), rng.draws), kind }
}

pub const NON_MAPS: &[&str] = &[
    "[1, 2, 3]",
    "42",
    "\"text\"",
    "null",
    "{}",
    "{\"foo\":1}",
    "{\"version\":3}",
    "{\"mappings\":\"AAAA\"}",
    "{\"version\":3,\"names\":[]}",
    "{\"file\":\"x\",\"sourceRoot\":\"\",\"mappings\":\"\"}",
    "{\"sections\":[]}",
    "{\"sections\":null,\"version\":3}",
    "true",
];

pub const INVALID: &[&[u8]] = &[
    b"{",
    b"{\"version\":3,",
    b"{\"version\":3,\"sources\":[\"a\"],\"names\":[],\"mappings\":\"AAAA\"",
    b"{\"version\":3,\"mappings\":\"AAAA\"}}",
    b"{\"version\":3,\"mappings\":\"AAAA\"} x",
    b"{\"version\":\"3\",\"sources\":[],\"mappings\":\"\"}",
    b"{\"version\":3,\"sources\":{},\"mappings\":\"\"}",
    b"{\"version\":3,\"sources\":[\"a\"],\"mappings\":\"AACA,A\",\"mappings\":\"AAAA\"}",
    b"\xff\xfe{\"version\":3}",
    b"{\"version\":3,\"sources\":[\"\xc3\"],\"mappings\":\"\"}",
    b"]",
    b"}{",
    b"'",
    b"\x00\x00\x00\x00",
    b"{\"version\":3,\"sources\":[],\"names\":[],\"mappings\":\"AAAA,\\u0000\"}",
];

/// Which decoded kind a fixture/inline document has (cheap textual test; only steers the mix).
fn looks_like(d: &Doc) -> DocKind {
    let b = &d.bytes[..];
    let has = |pat: &[u8]| b.windows(pat.len()).any(|w| w == pat);
    if has(b"\"sections\"") {
        DocKind::SynthIndex
    } else if has(b"\"x_facebook_sources\"") {
        DocKind::SynthHermes
    } else {
        DocKind::SynthRegular
    }
}

/// Draw a document that (before damage) decodes to the wanted kind of map.
pub fn draw_kind(rng: &mut Rng, fx: &Fixtures, want: DocKind, big_fixture_pct: u64) -> Doc {
    if rng.chance(1, 2) {
        for _ in 0..40 {
            let d = rng.pick(&fx.maps[..]);
            if d.bytes.len() > 10_000 && !rng.chance(big_fixture_pct, 100) {
                continue;
            }
            if d.bytes.len() > 90_000 && !d.label.starts_with("fixture:") && !rng.chance(1, 60) {
                continue;
            }
            if looks_like(d) == want {
                return d.clone();
            }
        }
    }
    synth(rng, want)
}

/// Draw one document for C12/C05 workloads.
pub fn draw(rng: &mut Rng, fx: &Fixtures, big_fixture_pct: u64) -> Doc {
    draw_weighted(rng, fx, big_fixture_pct, &[30, 26, 12, 12, 8, 8, 4])
}

pub fn draw_weighted(rng: &mut Rng, fx: &Fixtures, big_fixture_pct: u64, weights: &[u32; 7]) -> Doc {
    match rng.weighted(weights) {
        0 => {
            // fixtures; the two large ones are sampled rarely
            loop {
                let d = rng.pick(&fx.maps[..]).clone();
                if d.bytes.len() > 10_000 && !rng.chance(big_fixture_pct, 100) {
                    continue;
                }
                if d.bytes.len() > 90_000 && !d.label.starts_with("fixture:") && !rng.chance(1, 60) {
                    continue;
                }
                return d;
            }
        }
        1 => synth(rng, DocKind::SynthRegular),
        2 => synth(rng, DocKind::SynthIndex),
        3 => synth(rng, DocKind::SynthHermes),
        4 => {
            let t = *rng.pick(NON_MAPS);
            Doc { bytes: Arc::new(t.as_bytes().to_vec()), label: format!("non-map:{t}"), kind: DocKind::NonMap }
        }
        5 => {
            let k = rng.below_usize(INVALID.len());
            Doc { bytes: Arc::new(INVALID[k].to_vec()), label: format!("invalid#{k}"), kind: DocKind::Invalid }
        }
        _ => Doc { bytes: Arc::new(Vec::new()), label: "empty".into(), kind: DocKind::Empty },
    }
}

#[cfg(test)]
mod tests {
    use super::*;
    #[test]
    fn vlq_known() {
        let mut s = String::new();
        for v in [0, 1, -1, 16, -16, 123456789] {
            s.clear();
            vlq(&mut s, v);
            let parsed = sourcemap::vlq::parse_vlq_segment(&s).unwrap();
            assert_eq!(parsed, vec![v]);
        }
        assert_eq!(base64(b"any carnal pleas"), "YW55IGNhcm5hbCBwbGVhcw==");
        assert_eq!(base64(b"any carnal pleasu"), "YW55IGNhcm5hbCBwbGVhc3U=");
        assert_eq!(base64(b"any carnal pleasur"), "YW55IGNhcm5hbCBwbGVhc3Vy");
    }
}
