//! C05 fault model, at rest: what a disk or a careless writer does to a stored document.
//! bit flip; byte overwrite; torn write (truncation); zeroed sector; garbage sector; sector
//! duplicated or moved (misdirected write); stale tail (shorter new file over a longer old
//! one); digit substitution in a number literal; base64-digit substitution inside a mappings
//! string. Placement is biased into mappings / rangeMappings / function-map strings and number
//! literals, where damage yields a decodable document with in-flight state rather than a JSON
//! syntax error.

use simcore::rng::Rng;

#[derive(Clone, Copy, Debug, PartialEq, Eq, PartialOrd, Ord)]
pub enum RestFault {
    BitFlip,
    Overwrite,
    Truncate,
    ZeroSector,
    GarbageSector,
    DupSector,
    MoveSector,
    StaleTail,
    DigitSubst,
    B64Subst,
    VlqExtreme,
}

impl RestFault {
    pub const ALL: [RestFault; 11] = [
        RestFault::BitFlip,
        RestFault::Overwrite,
        RestFault::Truncate,
        RestFault::ZeroSector,
        RestFault::GarbageSector,
        RestFault::DupSector,
        RestFault::MoveSector,
        RestFault::StaleTail,
        RestFault::DigitSubst,
        RestFault::B64Subst,
        RestFault::VlqExtreme,
    ];
    pub fn name(self) -> &'static str {
        match self {
            RestFault::BitFlip => "bit flip at rest",
            RestFault::Overwrite => "byte overwrite",
            RestFault::Truncate => "torn write (truncation)",
            RestFault::ZeroSector => "zeroed sector",
            RestFault::GarbageSector => "garbage sector",
            RestFault::DupSector => "sector duplicated",
            RestFault::MoveSector => "sector moved",
            RestFault::StaleTail => "stale tail",
            RestFault::DigitSubst => "digit substitution in a number literal",
            RestFault::B64Subst => "base64-digit substitution in a mappings string",
            RestFault::VlqExtreme => "mappings field overwritten with an extreme VLQ value",
        }
    }
}

/// Byte ranges where damage tends to keep the document decodable.
#[derive(Default, Debug)]
pub struct Hot {
    /// contents of "mappings"/"rangeMappings" strings (also function-map mappings)
    pub mapping_strings: Vec<(usize, usize)>,
    /// digit runs outside strings (number literals)
    pub numbers: Vec<(usize, usize)>,
}

pub fn hot_regions(b: &[u8]) -> Hot {
    let mut hot = Hot::default();
    let mut i = 0usize;
    let n = b.len();
    while i < n {
        if b[i] == b'"' {
            // scan string
            let start = i + 1;
            let mut j = start;
            while j < n && b[j] != b'"' {
                if b[j] == b'\\' {
                    j += 1;
                }
                j += 1;
            }
            let end = j.min(n);
            let key = &b[start..end];
            i = end + 1;
            if key == b"mappings" || key == b"rangeMappings" {
                // skip ws and ':' and ws, expect a string value
                let mut k = i;
                while k < n && (b[k] == b' ' || b[k] == b'\n' || b[k] == b'\r' || b[k] == b'\t') {
                    k += 1;
                }
                if k < n && b[k] == b':' {
                    k += 1;
                    while k < n && (b[k] == b' ' || b[k] == b'\n' || b[k] == b'\r' || b[k] == b'\t') {
                        k += 1;
                    }
                    if k < n && b[k] == b'"' {
                        let vs = k + 1;
                        let mut ve = vs;
                        while ve < n && b[ve] != b'"' {
                            if b[ve] == b'\\' {
                                ve += 1;
                            }
                            ve += 1;
                        }
                        let ve = ve.min(n);
                        if ve > vs {
                            hot.mapping_strings.push((vs, ve));
                        }
                        i = ve + 1;
                    }
                }
            }
        } else if b[i].is_ascii_digit() {
            let s = i;
            while i < n && b[i].is_ascii_digit() {
                i += 1;
            }
            hot.numbers.push((s, i));
        } else {
            i += 1;
        }
    }
    hot
}

const B64: &[u8; 64] = b"ABCDEFGHIJKLMNOPQRSTUVWXYZabcdefghijklmnopqrstuvwxyz0123456789+/";

fn pos_in(rng: &mut Rng, r: (usize, usize)) -> usize {
    r.0 + rng.below_usize(r.1 - r.0)
}

/// Apply one fault; returns false if it could not apply (e.g. empty document).
pub fn apply(doc: &mut Vec<u8>, f: RestFault, rng: &mut Rng, other: &[u8]) -> bool {
    if doc.is_empty() && f != RestFault::StaleTail {
        return false;
    }
    let hot = hot_regions(doc);
    // 70 % of placements go into hot regions when there are any
    let biased_pos = |rng: &mut Rng, doc: &Vec<u8>| -> usize {
        let have_m = !hot.mapping_strings.is_empty();
        let have_n = !hot.numbers.is_empty();
        if (have_m || have_n) && rng.chance(7, 10) {
            if have_m && (!have_n || rng.chance(2, 3)) {
                let r = *rng.pick(&hot.mapping_strings[..]);
                pos_in(rng, r)
            } else {
                let r = *rng.pick(&hot.numbers[..]);
                pos_in(rng, r)
            }
        } else {
            rng.below_usize(doc.len())
        }
    };
    let sector = *rng.pick(&[16usize, 64, 512]);
    match f {
        RestFault::BitFlip => {
            let p = biased_pos(rng, doc);
            doc[p] ^= 1 << rng.below(8);
        }
        RestFault::Overwrite => {
            let p = biased_pos(rng, doc);
            doc[p] = if rng.chance(1, 2) { rng.below(256) as u8 } else { *rng.pick(&b"\"\\{}[],:;0 9\n\r-AgC/+"[..]) };
        }
        RestFault::Truncate => {
            let at = rng.below_usize(doc.len() + 1);
            doc.truncate(at);
        }
        RestFault::ZeroSector | RestFault::GarbageSector => {
            let start = (biased_pos(rng, doc) / sector) * sector;
            let end = (start + sector).min(doc.len());
            for k in start..end {
                doc[k] = if f == RestFault::ZeroSector { 0 } else { rng.below(256) as u8 };
            }
        }
        RestFault::DupSector | RestFault::MoveSector => {
            let nsec = (doc.len() + sector - 1) / sector;
            if nsec < 2 {
                return false;
            }
            let a = rng.below_usize(nsec);
            let mut b = rng.below_usize(nsec);
            if a == b {
                b = (b + 1) % nsec;
            }
            let (sa, ea) = (a * sector, ((a + 1) * sector).min(doc.len()));
            let sb = b * sector;
            let src: Vec<u8> = doc[sa..ea].to_vec();
            for (k, byte) in src.iter().enumerate() {
                if sb + k < doc.len() {
                    doc[sb + k] = *byte;
                }
            }
            if f == RestFault::MoveSector {
                for k in sa..ea {
                    doc[k] = 0;
                }
            }
        }
        RestFault::StaleTail => {
            // the new (shorter) file over a longer old one: old bytes remain after our end
            if other.len() <= doc.len() {
                return false;
            }
            doc.extend_from_slice(&other[doc.len()..]);
        }
        RestFault::DigitSubst => {
            if hot.numbers.is_empty() {
                return false;
            }
            let r = *rng.pick(&hot.numbers[..]);
            if rng.chance(1, 3) {
                // make the literal long: 0, 2^31, 2^32-1, 2^32, 2^63 ...
                // mostly values a u32 field still accepts; rarely one past it
                let lit: &[u8] = *rng.pick(&[&b"0"[..], b"1", b"2147483647", b"2147483648", b"4294967295", b"4294967294", b"4294967295", b"65536", b"99999", b"100000", b"4294967296", b"9223372036854775808"]);
                doc.splice(r.0..r.1, lit.iter().copied());
            } else {
                let p = pos_in(rng, r);
                doc[p] = b'0' + rng.below(10) as u8;
            }
        }
        RestFault::VlqExtreme => {
            // a multi-digit overwrite that stays inside the base64 alphabet: one whole VLQ field
            // becomes 0, +-2^31, +-(2^32-1), +-2^32 or a 62-bit value
            if hot.mapping_strings.is_empty() {
                return false;
            }
            let r = *rng.pick(&hot.mapping_strings[..]);
            let p = pos_in(rng, r);
            let is_digit = |c: u8| B64.contains(&c);
            if !is_digit(doc[p]) {
                return false;
            }
            // the field under p: digits up to and including the first one without continuation bit
            let cont = |c: u8| B64.iter().position(|&x| x == c).map(|d| d & 32 != 0).unwrap_or(false);
            let mut s0 = p;
            while s0 > r.0 && is_digit(doc[s0 - 1]) && cont(doc[s0 - 1]) {
                s0 -= 1;
            }
            let mut e0 = p;
            while e0 < r.1 && is_digit(doc[e0]) && cont(doc[e0]) {
                e0 += 1;
            }
            let e0 = (e0 + 1).min(r.1);
            let mag: i64 = *rng.pick(&[0i64, 1, 1 << 31, (1 << 31) - 1, (1 << 32) - 1, (1 << 32) - 2, 1 << 32, (1 << 32) + 1, 1 << 61, 65536]);
            let v = if rng.chance(1, 2) { mag } else { -mag };
            let mut enc = String::new();
            crate::zoo::vlq(&mut enc, v);
            if rng.chance(1, 4) {
                // raw digits rather than an encoded value: the longest legal continuation run
                // (12 continuation digits + a final digit of any value, i.e. up to 65 payload
                // bits) or one digit more than that
                enc.clear();
                if rng.chance(1, 2) {
                    // all payload bits set: the largest magnitudes a 13-digit run can carry,
                    // with every value of the final (most significant) digit that matters
                    enc.push(*rng.pick(&['+', '/']));
                    for _ in 0..11 {
                        enc.push('/');
                    }
                    enc.push(*rng.pick(&['P', 'H', 'I', 'Q', 'f', 'A', 'O', 'D']));
                } else {
                    let n = if rng.chance(1, 5) { 13 } else { 12 };
                    for _ in 0..n {
                        enc.push(B64[32 + if rng.chance(2, 3) { 31 } else { rng.below_usize(32) }] as char);
                    }
                    enc.push(B64[rng.below_usize(32)] as char);
                }
            } else if rng.chance(1, 4) {
                // repeated: two one-field segments with the same huge value in front, so that the
                // generated-column running sum takes several same-sign steps on one line
                let huge = if rng.chance(1, 2) { 1i64 << 62 } else { -(1i64 << 62) };
                let mut h = String::new();
                crate::zoo::vlq(&mut h, huge);
                // only at the start of a segment (otherwise the field structure breaks)
                if s0 == r.0 || doc[s0 - 1] == b',' || doc[s0 - 1] == b';' {
                    enc = format!("{h},{h},{h},{enc}");
                }
            }
            doc.splice(s0..e0, enc.bytes());
        }
        RestFault::B64Subst => {
            if hot.mapping_strings.is_empty() {
                return false;
            }
            let r = *rng.pick(&hot.mapping_strings[..]);
            let mut p = pos_in(rng, r);
            if rng.chance(3, 4) {
                // aim at a column / original line / original column field (0, 2, 3) of the segment
                // under p: those change positions without invalidating source or name references
                let mut s = p;
                while s > r.0 && doc[s - 1] != b',' && doc[s - 1] != b';' {
                    s -= 1;
                }
                let mut fields: Vec<(usize, usize)> = Vec::new();
                let mut k = s;
                let mut fs = s;
                while k < r.1 && doc[k] != b',' && doc[k] != b';' {
                    let cont = B64.iter().position(|&c| c == doc[k]).map(|d| d & 32 != 0).unwrap_or(false);
                    if !cont {
                        fields.push((fs, k + 1));
                        fs = k + 1;
                    }
                    k += 1;
                }
                let good: Vec<(usize, usize)> = fields.iter().enumerate().filter(|(i, _)| matches!(i, 0 | 2 | 3)).map(|(_, f)| *f).collect();
                if !good.is_empty() {
                    let f = *rng.pick(&good[..]);
                    p = f.0 + rng.below_usize(f.1 - f.0);
                }
            }
            if rng.chance(1, 16) {
                // a character from outside Latin-1 dropped into the mappings text (raw UTF-8):
                // code that walks the text by `char` sees a code point far above 255
                let ins = *rng.pick(&["€", "—", "Ā", "\u{2028}", "👌", "日"]);
                doc.splice(p..p + 1, ins.bytes());
                return true;
            }
            let cur = doc[p];
            let cur_digit = B64.iter().position(|&c| c == cur);
            doc[p] = match rng.below(40) {
                0 => b',',
                1 => b';',
                2..=9 => B64[rng.below_usize(64)],
                _ => match cur_digit {
                    // keep the continuation bit: the segment keeps its field count, the value changes
                    Some(d) => B64[(d & 32) | rng.below_usize(32)],
                    None => B64[rng.below_usize(64)],
                },
            };
        }
    }
    true
}

#[cfg(test)]
mod tests {
    use super::*;
    #[test]
    fn finds_regions() {
        let d = br#"{"version":3,"mappings":"AAAA;BCDE","x":[12,{"mappings" : "QQ"}]}"#;
        let h = hot_regions(d);
        assert_eq!(h.mapping_strings.len(), 2);
        assert_eq!(&d[h.mapping_strings[0].0..h.mapping_strings[0].1], b"AAAA;BCDE");
        assert_eq!(&d[h.mapping_strings[1].0..h.mapping_strings[1].1], b"QQ");
        assert_eq!(h.numbers.len(), 2);
    }
}
