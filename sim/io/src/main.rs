//! sim_io — simulator for the I/O-facing and single-client properties (C05, C12, C15).
//!
//! usage: sim_io <C05|C12|C15> [--tier quick|thorough] [--runs N] [--seed S] [--workers W]
//!        sim_io <id> --replay <file>

mod alloc;
mod c05;
mod c05_faults;
mod c05_scale;
mod c05_work;
mod c12;
mod c15;
mod dump;
mod simreader;
mod zoo;

use simcore::{harness_error, Args};

#[global_allocator]
static GLOBAL: alloc::CountingAlloc = alloc::CountingAlloc;

fn main() {
    let args = Args::from_env();
    simcore::panics::install_hook();
    let rc = match args.positional(0) {
        Some("C15") => c15::main(&args),
        Some("C12") => c12::main(&args),
        Some("C05") => c05::main(&args),
        other => harness_error(&format!("sim_io: unknown property {other:?}")),
    };
    std::process::exit(rc);
}
