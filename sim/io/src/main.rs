fn main(){}
