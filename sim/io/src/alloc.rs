//! Counting global allocator: live and peak bytes of the current OS thread. The counters are
//! const-initialised thread-locals without destructors, so touching them from inside the
//! allocator neither allocates nor recurses. C05 children are single-threaded, so "per thread"
//! is "per process" there.

use std::alloc::{GlobalAlloc, Layout, System};
use std::cell::Cell;

thread_local! {
    static LIVE: Cell<isize> = const { Cell::new(0) };
    static PEAK: Cell<isize> = const { Cell::new(0) };
    static ALLOCS: Cell<u64> = const { Cell::new(0) };
    /// absolute live-byte level above which the current window counts as tripped
    static LIMIT: Cell<isize> = const { Cell::new(isize::MAX) };
    /// name of the library call in flight (set by the workload before each call)
    pub static MARK: Cell<&'static str> = const { Cell::new("-") };
    /// the call that was in flight when the window first went over its limit
    static TRIPPED: Cell<Option<&'static str>> = const { Cell::new(None) };
}

pub struct CountingAlloc;

#[inline]
fn add(n: isize) {
    let _ = LIVE.try_with(|l| {
        let v = l.get() + n;
        l.set(v);
        if n > 0 {
            let _ = PEAK.try_with(|p| {
                if v > p.get() {
                    p.set(v);
                }
            });
            let _ = LIMIT.try_with(|lim| {
                if v > lim.get() {
                    let _ = TRIPPED.try_with(|t| {
                        if t.get().is_none() {
                            t.set(Some(MARK.try_with(|m| m.get()).unwrap_or("-")));
                        }
                    });
                }
            });
            let _ = ALLOCS.try_with(|a| a.set(a.get() + 1));
        }
    });
}

unsafe impl GlobalAlloc for CountingAlloc {
    unsafe fn alloc(&self, layout: Layout) -> *mut u8 {
        let p = System.alloc(layout);
        if !p.is_null() {
            add(layout.size() as isize);
        }
        p
    }
    unsafe fn dealloc(&self, ptr: *mut u8, layout: Layout) {
        System.dealloc(ptr, layout);
        add(-(layout.size() as isize));
    }
    unsafe fn alloc_zeroed(&self, layout: Layout) -> *mut u8 {
        let p = System.alloc_zeroed(layout);
        if !p.is_null() {
            add(layout.size() as isize);
        }
        p
    }
    unsafe fn realloc(&self, ptr: *mut u8, layout: Layout, new_size: usize) -> *mut u8 {
        let p = System.realloc(ptr, layout, new_size);
        if !p.is_null() {
            add(new_size as isize - layout.size() as isize);
        }
        p
    }
}

/// Start a measurement window: peak := live. Returns the baseline.
pub fn window_start() -> isize {
    let live = LIVE.with(|l| l.get());
    PEAK.with(|p| p.set(live));
    live
}

/// Arm the window: the first allocation that takes live bytes more than `allowance` above
/// `baseline` records the call in flight (`MARK`).
pub fn window_limit(baseline: isize, allowance: u64) {
    TRIPPED.with(|t| t.set(None));
    LIMIT.with(|l| l.set(baseline.saturating_add(allowance.min(isize::MAX as u64) as isize)));
}

/// Disarm; returns the call that was in flight when the limit was first exceeded.
pub fn window_tripped() -> Option<&'static str> {
    LIMIT.with(|l| l.set(isize::MAX));
    TRIPPED.with(|t| t.take())
}

/// Peak growth above `baseline` since `window_start`.
pub fn window_peak(baseline: isize) -> u64 {
    (PEAK.with(|p| p.get()) - baseline).max(0) as u64
}

pub fn alloc_calls() -> u64 {
    ALLOCS.with(|a| a.get())
}
