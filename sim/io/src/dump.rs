//! Observational dump of a decoded map through public accessors only (never the encoder, so
//! an encoder defect can neither mask nor fake a difference between two decoding paths).

use sourcemap::{DecodedMap, SourceMap, SourceMapHermes, SourceMapIndex};
use std::fmt::Write;

pub fn dump_decoded(m: &DecodedMap, out: &mut String) {
    match m {
        DecodedMap::Regular(sm) => {
            out.push_str("REGULAR\n");
            dump_regular(sm, out);
        }
        DecodedMap::Index(smi) => {
            out.push_str("INDEX\n");
            dump_index(smi, out);
        }
        DecodedMap::Hermes(smh) => {
            out.push_str("HERMES\n");
            dump_hermes(smh, out);
        }
    }
}

pub fn dump_regular(sm: &SourceMap, out: &mut String) {
    let _ = writeln!(out, "file={:?} root={:?} debug_id={:?}", sm.get_file(), sm.get_source_root(), sm.get_debug_id());
    let _ = writeln!(out, "ignore={:?}", sm.ignore_list().collect::<Vec<_>>());
    let _ = writeln!(out, "counts src={} names={} tokens={}", sm.get_source_count(), sm.get_name_count(), sm.get_token_count());
    for (i, s) in sm.sources().enumerate() {
        let _ = writeln!(out, "source[{i}]={s:?}");
    }
    for (i, n) in sm.names().enumerate() {
        let _ = writeln!(out, "name[{i}]={n:?}");
    }
    for (i, c) in sm.source_contents().enumerate() {
        let _ = writeln!(out, "content[{i}]={c:?}");
    }
    for t in sm.tokens() {
        let _ = writeln!(
            out,
            "t {} {} {} {} {} {} {} {:?} {:?}",
            t.get_dst_line(),
            t.get_dst_col(),
            t.get_src_line(),
            t.get_src_col(),
            t.get_src_id(),
            t.get_name_id(),
            t.is_range(),
            t.get_source(),
            t.get_name()
        );
    }
}

pub fn dump_hermes(smh: &SourceMapHermes, out: &mut String) {
    dump_regular(smh, out);
    for t in smh.tokens() {
        // get_scope_for_token adds 1 to the original line; u32::MAX there is a C05 matter
        // (arithmetic overflow), so this dump stays below it and C12 compares the rest.
        if t.get_src_line() == u32::MAX {
            let _ = writeln!(out, "scope <skipped: src_line=u32::MAX>");
            continue;
        }
        let _ = writeln!(out, "scope {:?}", smh.get_scope_for_token(t));
    }
}

pub fn dump_index(smi: &SourceMapIndex, out: &mut String) {
    let _ = writeln!(out, "file={:?} sections={}", smi.get_file(), smi.get_section_count());
    let _ = writeln!(out, "x_facebook_offsets={:?}", smi.x_facebook_offsets());
    let _ = writeln!(out, "x_metro_module_paths={:?}", smi.x_metro_module_paths());
    let _ = writeln!(out, "ram_bundle={}", smi.is_for_ram_bundle());
    for (i, s) in smi.sections().enumerate() {
        let _ = writeln!(out, "section[{i}] offset={:?} url={:?}", s.get_offset(), s.get_url());
        match s.get_sourcemap() {
            None => out.push_str("  <no map>\n"),
            Some(m) => {
                out.push_str("  {\n");
                dump_decoded(m, out);
                out.push_str("  }\n");
            }
        }
    }
}
