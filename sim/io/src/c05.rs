//! C05 — untrusted bytes never crash the library (fault-reachable part, DESIGN.md §4.4).
//!
//! Parent process: splits the batch into segments, runs them in child processes (crash
//! containment), watches the run each child announced, attributes aborts/hangs to it, merges.
//! Child process: single-threaded; per run: damage a stored document at rest, deliver it
//! through SimTransport/SimReader (or as a slice / data URL) into a seeded entry point, run the
//! post-decode workload, all under panic, allocation and read-budget monitors.

use crate::alloc;
use crate::c05_faults::{self as faults, RestFault};
use crate::c05_work as work;
use crate::simreader::*;
use crate::zoo::{self, Fixtures};
use serde_json::{json, Value};
use simcore::hash::{hex, unhex, KeySet, H64};
use simcore::panics;
use simcore::rng::{self, Rng};
use simcore::{harness_error, Args, Tier, ViolationTable};
use sourcemap::{DecodedMap, SourceMap, SourceMapHermes, SourceMapIndex, SourceView};
use std::collections::BTreeMap;
use std::io::{Read, Write};
use std::panic::{catch_unwind, AssertUnwindSafe};

const PROP: &str = "C05";
/// Second stage of the check: the same simulator built with the library at opt-level 0 and with
/// debug assertions (profile `devsim`), a run domain of its own and a larger share of large
/// documents. What a build configuration changes (recursion that release builds turn into loops,
/// `debug_assert!`s, frame sizes) is one more thing correctness must not depend on.
fn debug_stage() -> bool {
    simcore::debug_stage()
}

fn run_domain() -> u64 {
    if debug_stage() {
        rng::domain("C05/debug-profile")
    } else {
        rng::domain(PROP)
    }
}

/// Every case runs on a thread with the default stack of `std::thread::spawn` (2 MiB), which is
/// what a caller decoding on a worker thread has.
const CASE_STACK: usize = 2 << 20;

const ALLOC_BASE: u64 = 4 << 20;
const ALLOC_PER_BYTE: u64 = 256;

#[derive(Clone, Copy, Debug, PartialEq, Eq, PartialOrd, Ord)]
pub enum Entry {
    DecodeSlice,
    DecodeReader,
    DecodedFromReader,
    DataUrl,
    RegularSlice,
    RegularReader,
    IndexSlice,
    IndexReader,
    HermesSlice,
    HermesReader,
    DetectSlice,
    DetectReader,
    LocateReader,
    LocateSlice,
    ViewReference,
}

impl Entry {
    const ALL: [Entry; 15] = [
        Entry::DecodeSlice,
        Entry::DecodeReader,
        Entry::DecodedFromReader,
        Entry::DataUrl,
        Entry::RegularSlice,
        Entry::RegularReader,
        Entry::IndexSlice,
        Entry::IndexReader,
        Entry::HermesSlice,
        Entry::HermesReader,
        Entry::DetectSlice,
        Entry::DetectReader,
        Entry::LocateReader,
        Entry::LocateSlice,
        Entry::ViewReference,
    ];
    const WEIGHTS: [u32; 15] = [16, 16, 4, 6, 7, 7, 7, 7, 7, 7, 3, 3, 4, 3, 3];
    pub fn name(self) -> &'static str {
        match self {
            Entry::DecodeSlice => "decode_slice",
            Entry::DecodeReader => "decode",
            Entry::DecodedFromReader => "DecodedMap::from_reader",
            Entry::DataUrl => "decode_data_url",
            Entry::RegularSlice => "SourceMap::from_slice",
            Entry::RegularReader => "SourceMap::from_reader",
            Entry::IndexSlice => "SourceMapIndex::from_slice",
            Entry::IndexReader => "SourceMapIndex::from_reader",
            Entry::HermesSlice => "SourceMapHermes::from_slice",
            Entry::HermesReader => "SourceMapHermes::from_reader",
            Entry::DetectSlice => "is_sourcemap_slice",
            Entry::DetectReader => "is_sourcemap",
            Entry::LocateReader => "locate_sourcemap_reference",
            Entry::LocateSlice => "locate_sourcemap_reference_slice",
            Entry::ViewReference => "SourceView::sourcemap_reference",
        }
    }
    fn from_name(s: &str) -> Option<Entry> {
        Entry::ALL.iter().copied().find(|e| e.name() == s)
    }
    fn is_script(self) -> bool {
        matches!(self, Entry::LocateReader | Entry::LocateSlice | Entry::ViewReference)
    }
    fn uses_reader(self) -> bool {
        matches!(
            self,
            Entry::DecodeReader | Entry::DecodedFromReader | Entry::RegularReader | Entry::IndexReader | Entry::HermesReader | Entry::DetectReader | Entry::LocateReader
        )
    }
}

#[derive(Clone, Debug)]
pub struct Case {
    pub label: String,
    pub entry: Entry,
    /// the document as some tool wrote it (before damage); used by the minimiser only
    pub original: Vec<u8>,
    pub events: Vec<Event>,
    pub url_variant: u8,
    pub workload_seed: u64,
    pub full_workload: bool,
    pub script_text: String,
    pub rest_faults: Vec<RestFault>,
    pub stats: TransportStats,
    pub doc_kind: &'static str,
}

fn gen_script(rng: &mut Rng, fx: &Fixtures) -> (Vec<u8>, String) {
    if rng.chance(2, 5) && !fx.scripts.is_empty() {
        let d = rng.pick(&fx.scripts[..]);
        return ((*d.bytes).clone(), d.label.clone());
    }
    let mut s: Vec<u8> = Vec::new();
    for _ in 0..rng.small(5) {
        s.extend_from_slice(*rng.pick(&[&b"var a=1;\n"[..], b"function foo(){return 1}\r\n", b"// comment\n", b"\n", b"//# sourceMappingURL\n", b"/* x */ \xc3\xa9\n", b"x\r"]));
    }
    // comment lines that merely look like a reference: "//# " / "//@ " followed by ASCII of a
    // seeded length and then a multi-byte character, so that every small byte offset of the line
    // (in particular offset 21, where the URL would start) can fall inside a character
    for _ in 0..rng.small(3) {
        s.extend_from_slice(*rng.pick(&[&b"//# "[..], b"//@ ", b"//#", b"// "]));
        let body: &[u8] = *rng.pick(&[&b"sourceMappingURL"[..], b"sourceURL=/home/", b"source", b"sourceMappingURL=", b"x"]);
        s.extend_from_slice(body);
        for _ in 0..rng.below(6) {
            s.push(*rng.pick(&b"abc=/."[..]));
        }
        s.extend_from_slice(*rng.pick(&["é".as_bytes(), "＝".as_bytes(), "👌".as_bytes(), "€".as_bytes()]));
        s.extend_from_slice(*rng.pick(&[&b"milie/app.js\n"[..], b"foo.js.map\n", b"\n", b"\r\n"]));
    }
    let prefix: &[u8] = *rng.pick(&[&b"//# sourceMappingURL="[..], b"//@ sourceMappingURL=", b"//# sourceMappingURL= ", b" //# sourceMappingURL=", b"//# sourceMappingURL"]);
    s.extend_from_slice(prefix);
    match rng.below(6) {
        0 => s.extend_from_slice(b"out.js.map"),
        1 => s.extend_from_slice(b"http://example.com/a/b.map?x=1#f"),
        2 | 3 => {
            let d = zoo::draw(rng, fx, 0);
            let pre: &[u8] = *rng.pick(&[&b"data:application/json;base64,"[..], b"data:application/json;base64,", b"data:application/json;charset=utf-8;base64,", b"data:,", b"data:application/json;base64"]);
            s.extend_from_slice(pre);
            s.extend_from_slice(zoo::base64(&d.bytes).as_bytes());
        }
        4 => s.extend_from_slice(b"  ../\xff\xfe.map  "),
        _ => {}
    }
    s.extend_from_slice(*rng.pick(&[&b""[..], b"\n", b"\r\n", b"\n// trailing\n", b"  \n\n"]));
    (s, "synthetic-script".to_string())
}

pub fn gen_case(rng: &mut Rng, fx: &Fixtures) -> Case {
    let entry = Entry::ALL[rng.weighted(&Entry::WEIGHTS)];
    let (mut doc, label, kind) = if entry.is_script() {
        let (b, l) = gen_script(rng, fx);
        (b, l, "script")
    } else {
        // mostly a document of the kind the entry point accepts, so that most runs get past decoding
        let want = match entry {
            Entry::RegularSlice | Entry::RegularReader => Some(zoo::DocKind::SynthRegular),
            Entry::IndexSlice | Entry::IndexReader => Some(zoo::DocKind::SynthIndex),
            Entry::HermesSlice | Entry::HermesReader => Some(zoo::DocKind::SynthHermes),
            _ => None,
        };
        // debugging aid, never set by the registered commands: force documents whose label contains the text
        let forced = std::env::var("VERIF_C05_ONLY_DOC").ok().and_then(|w| fx.maps.iter().find(|d| d.label.contains(&w)).cloned());
        let d = match want {
            _ if forced.is_some() => forced.unwrap(),
            // the amplification documents get a share of their own (they are too large to come
            // up often enough through the size-weighted draw)
            _ if rng.chance(1, if debug_stage() { 60 } else { 250 }) => fx.maps[*rng.pick(&fx.amplify[..])].clone(),
            // and so do the large ones (each costs tens of milliseconds, so a small share)
            _ if rng.chance(1, if debug_stage() { 150 } else { 5000 }) => fx.maps[*rng.pick(&fx.scale[..])].clone(),
            Some(k) if rng.chance(85, 100) => zoo::draw_kind(rng, fx, k, 2),
            _ => zoo::draw_weighted(rng, fx, 2, &[34, 26, 15, 15, 4, 4, 2]),
        };
        ((*d.bytes).clone(), d.label.clone(), d.kind.name())
    };
    let original = doc.clone();
    // optional junk header (stored with the document, so damage can hit it too)
    if !entry.is_script() && rng.chance(1, 5) {
        let mut h = b")]}'".to_vec();
        for _ in 0..rng.small(6) {
            h.push(*rng.pick(&b"x]}\" '"[..]));
        }
        h.extend_from_slice(*rng.pick(&[&b"\n"[..], b"\r\n", b"\r", b""]));
        h.extend_from_slice(&doc);
        doc = h;
    }
    // a UTF-8 byte order mark (or a torn one) in front of everything
    if !entry.is_script() && rng.chance(1, 40) {
        let bom: &[u8] = *rng.pick(&[&b"\xef\xbb\xbf"[..], b"\xef\xbb", b"\xef\xbb\xbf\xef\xbb\xbf"]);
        let mut h = bom.to_vec();
        h.extend_from_slice(&doc);
        doc = h;
    }
    // rarely: a very long junk header delivered in tiny reads (any per-read cost that the library
    // keeps instead of releasing shows up as allocation or stack growth)
    let mut long_header = false;
    if entry.uses_reader() && rng.chance(1, 100) {
        let len = match rng.below(3) {
            0 => rng.range_usize(200, 1000),
            1 => rng.range_usize(1000, 5000),
            _ => rng.range_usize(5000, 20000),
        };
        let mut h = b")]}'".to_vec();
        let fill = *rng.pick(&b"x] \"}"[..]);
        h.resize(len, fill);
        h.extend_from_slice(*rng.pick(&[&b"\n"[..], b"\r\n"]));
        h.extend_from_slice(&doc);
        doc = h;
        long_header = true;
    }
    // at rest: 0..3 faults (10 % of runs are fault-free at rest and rely on the transport)
    let nfaults = rng.weighted(&[12, 56, 24, 8]);
    let mut rest_faults = Vec::new();
    let other = fx.maps[rng.below_usize(fx.maps.len())].bytes.clone();
    for _ in 0..nfaults {
        let f = RestFault::ALL[rng.weighted(&[12, 8, 4, 2, 2, 2, 2, 2, 20, 36, 10])];
        if faults::apply(&mut doc, f, rng, &other) {
            rest_faults.push(f);
        }
    }
    // in flight
    let mut stats = TransportStats::default();
    let events = if entry.uses_reader() {
        let chunking = if long_header {
            match rng.below(3) {
                0 => Chunking::Geometric(1),
                1 => Chunking::Geometric(2),
                _ => Chunking::FineHead(doc.len().saturating_sub(rng.below_usize(64))),
            }
        } else {
            match rng.weighted(&[25, 8, 15, 35, 7, 10]) {
            0 => Chunking::AllAtOnce,
            1 => {
                if doc.len() <= 2048 {
                    Chunking::OneByte
                } else {
                    Chunking::FineHead(64)
                }
            }
            2 => Chunking::SplitAt(rng.below_usize(doc.len() + 1)),
            3 => Chunking::Geometric(*rng.pick(&[2usize, 16, 256, 4096])),
            4 => Chunking::Near8k,
            _ => Chunking::FineHead(rng.below_usize(40)),
            }
        };
        let mut chunks = cut(&doc, &chunking, rng);
        if rng.chance(12, 100) {
            let f = *rng.pick(&[ContentFault::Drop, ContentFault::Duplicate, ContentFault::Swap, ContentFault::Flip, ContentFault::EarlyEof]);
            apply_content_fault(&mut chunks, f, rng, &mut stats);
        }
        let eintr = *rng.pick(&[0u64, 0, 0, 15, 50]);
        let hard = if rng.chance(8, 100) { Some((rng.below_usize(chunks.len() + 1), *rng.pick(&ErrKind::ALL[..]))) } else { None };
        interleave(chunks, eintr, hard, rng, &mut stats)
    } else {
        vec![Event::Data(doc)]
    };
    let script_text = if !fx.scripts.is_empty() && rng.chance(1, 2) {
        String::from_utf8_lossy(&rng.pick(&fx.scripts[..]).bytes[..]).chars().take(4000).collect()
    } else {
        "function foo(a,b){return a+b}\nvar bar=function baz(){};".to_string()
    };
    Case {
        label,
        entry,
        original,
        events,
        url_variant: rng.weighted(&[34, 24, 8, 8, 8, 8, 4, 6]) as u8,
        workload_seed: rng.next_u64(),
        full_workload: rng.chance(1, 10),
        script_text,
        rest_faults,
        stats,
        doc_kind: kind,
    }
}

impl Case {
    fn to_json(&self) -> Value {
        json!({
            "doc": self.label, "entry": self.entry.name(), "events": events_to_json(&self.events),
            "original": hex(&self.original), "url_variant": self.url_variant, "workload_seed": self.workload_seed,
            "full_workload": self.full_workload, "script_text": self.script_text,
            "rest_faults": self.rest_faults.iter().map(|f| f.name()).collect::<Vec<_>>(),
        })
    }
    fn from_json(v: &Value) -> Option<Case> {
        Some(Case {
            label: v["doc"].as_str()?.to_string(),
            entry: Entry::from_name(v["entry"].as_str()?)?,
            original: unhex(v["original"].as_str()?)?,
            events: events_from_json(&v["events"])?,
            url_variant: v["url_variant"].as_u64()? as u8,
            workload_seed: v["workload_seed"].as_u64()?,
            full_workload: v["full_workload"].as_bool()?,
            script_text: v["script_text"].as_str()?.to_string(),
            rest_faults: Vec::new(),
            stats: TransportStats::default(),
            doc_kind: "replay",
        })
    }
    fn summary(&self) -> Value {
        let d = delivered(&self.events);
        json!({
            "doc": self.label, "entry": self.entry.name(), "delivered_bytes": d.len(),
            "rest_faults": self.rest_faults.iter().map(|f| f.name()).collect::<Vec<_>>(),
            "events": self.events.len(), "delivered_prefix": String::from_utf8_lossy(&d[..d.len().min(80)]),
        })
    }
}

pub enum Verdict {
    Held,
    Violated(String, String),
    Harness(String),
}

pub struct Exec {
    pub verdict: Verdict,
    pub event_hash: u64,
    pub decoded: bool,
    pub map_kind: &'static str,
    pub peak_alloc: u64,
    pub delivered_len: usize,
    pub log: ReadLog,
    pub api_calls: BTreeMap<&'static str, u64>,
    pub reserialised: u64,
    pub errors: BTreeMap<&'static str, u64>,
    /// further distinct non-panic violations of the same run (so that a listed known finding
    /// cannot hide a different one found in the same run)
    pub more: Vec<(String, String)>,
}

enum Got {
    Nothing,
    Decoded(DecodedMap),
    Regular(SourceMap),
    Index(SourceMapIndex),
    Hermes(SourceMapHermes),
}

fn run_entry(c: &Case, d: &[u8], rdr: &mut SimReader, cx: &mut work::Ctx) -> Got {
    cx.call(c.entry.name());
    let ok = |cx: &mut work::Ctx, r: bool| cx.digest.u64(r as u64);
    macro_rules! take {
        ($r:expr, $wrap:expr) => {
            match $r {
                Ok(m) => $wrap(m),
                Err(e) => {
                    cx.note_err(&e);
                    Got::Nothing
                }
            }
        };
    }
    match c.entry {
        Entry::DecodeSlice => take!(sourcemap::decode_slice(d), Got::Decoded),
        Entry::DecodeReader => take!(sourcemap::decode(&mut *rdr), Got::Decoded),
        Entry::DecodedFromReader => take!(DecodedMap::from_reader(&mut *rdr), Got::Decoded),
        Entry::DataUrl => {
            let url = match c.url_variant {
                0 | 1 => format!("data:application/json;base64,{}", zoo::base64(d)),
                2 => format!("data:application/json;charset=utf-8;base64,{}", zoo::base64(d)),
                3 => {
                    // a damaged URL: the payload bytes taken as the URL text itself
                    format!("data:application/json;base64,{}", String::from_utf8_lossy(d))
                }
                4 => String::from_utf8_lossy(d).to_string(),
                5 => {
                    // the preamble with one character replaced by a multi-byte one / in upper case
                    let pre = "data:application/json;base64,";
                    let k = (c.workload_seed % pre.len() as u64) as usize;
                    let odd = ["é", "€", "👌", "Ａ"][(c.workload_seed / 64 % 4) as usize];
                    format!("{}{}{}{}", &pre[..k], odd, &pre[k + 1..], zoo::base64(d))
                }
                6 => format!("DATA:application/JSON;BASE64,{}", zoo::base64(d)),
                _ => {
                    // not base64 at all: the payload percent-encoded after a bare comma, whole or
                    // cut off at a seeded length (possibly inside an escape)
                    let mut u = String::from(if c.workload_seed % 2 == 0 { "data:application/json," } else { "data:application/json;charset=utf-8," });
                    for &b in d.iter().take(400) {
                        if b.is_ascii_alphanumeric() {
                            u.push(b as char);
                        } else {
                            u.push_str(&format!("%{:02X}", b));
                        }
                    }
                    let cut = (c.workload_seed / 7 % 12) as usize;
                    let keep = u.len().saturating_sub(cut).max(22);
                    u.truncate(keep.min(u.len()));
                    u
                }
            };
            take!(sourcemap::decode_data_url(&url), Got::Decoded)
        }
        Entry::RegularSlice => take!(SourceMap::from_slice(d), Got::Regular),
        Entry::RegularReader => take!(SourceMap::from_reader(&mut *rdr), Got::Regular),
        Entry::IndexSlice => take!(SourceMapIndex::from_slice(d), Got::Index),
        Entry::IndexReader => take!(SourceMapIndex::from_reader(&mut *rdr), Got::Index),
        Entry::HermesSlice => take!(SourceMapHermes::from_slice(d), Got::Hermes),
        Entry::HermesReader => take!(SourceMapHermes::from_reader(&mut *rdr), Got::Hermes),
        Entry::DetectSlice => {
            let r = sourcemap::is_sourcemap_slice(d);
            ok(cx, r);
            Got::Nothing
        }
        Entry::DetectReader => {
            let r = sourcemap::is_sourcemap(&mut *rdr);
            ok(cx, r);
            Got::Nothing
        }
        Entry::LocateReader | Entry::LocateSlice | Entry::ViewReference => {
            let r = match c.entry {
                Entry::LocateReader => sourcemap::locate_sourcemap_reference(&mut *rdr),
                Entry::LocateSlice => sourcemap::locate_sourcemap_reference_slice(d),
                _ => {
                    let text = String::from_utf8_lossy(d).to_string();
                    let sv = SourceView::from_string(text);
                    cx.call("SourceView::sourcemap_reference");
                    sv.sourcemap_reference()
                }
            };
            match r {
                Ok(Some(smref)) => {
                    cx.call("SourceMapRef::get_url");
                    cx.digest.u64(smref.get_url().len() as u64);
                    for base in ["http://example.com/js/app.min.js", "file:///x/y.js", "not a url", "", "https://h/"] {
                        cx.call("SourceMapRef::resolve");
                        let r = smref.resolve(base);
                        cx.digest.u64(r.map(|s| s.len() as u64 + 1).unwrap_or(0));
                    }
                    for path in ["/srv/app/min.js", "min.js", "", "/", "/é/👌.js"] {
                        cx.call("SourceMapRef::resolve_path");
                        let r = smref.resolve_path(std::path::Path::new(path));
                        cx.digest.u64(r.is_some() as u64);
                    }
                    cx.call("Debug/PartialEq for SourceMapRef");
                    cx.digest.u64(format!("{smref:?}").len() as u64);
                    cx.digest.u64((smref == smref) as u64);
                    cx.call("SourceMapRef::get_embedded_sourcemap");
                    match smref.get_embedded_sourcemap() {
                        Ok(Some(m)) => Got::Decoded(m),
                        Ok(None) => Got::Nothing,
                        Err(e) => {
                            cx.note_err(&e);
                            Got::Nothing
                        }
                    }
                }
                Ok(None) => {
                    cx.digest.u64(0);
                    Got::Nothing
                }
                Err(e) => {
                    cx.note_err(&e);
                    cx.digest.u64(2);
                    Got::Nothing
                }
            }
        }
    }
}

/// Bytes that decoding spends on `sourceRoot + "/" + source` strings (one per entry of `sources`
/// that is not absolute), summed over every map object in the delivered document. Used only to
/// tell the recorded finding (DESIGN.md §11, F13) from any other excess allocation.
fn prefixed_source_bytes(d: &[u8]) -> u64 {
    fn walk(v: &serde_json::Value, acc: &mut u64) {
        match v {
            serde_json::Value::Object(o) => {
                if let (Some(serde_json::Value::String(root)), Some(serde_json::Value::Array(srcs))) = (o.get("sourceRoot"), o.get("sources")) {
                    if !root.is_empty() {
                        for s in srcs {
                            let s = s.as_str().unwrap_or("");
                            let absolute = !s.is_empty() && (s.starts_with('/') || s.starts_with("http:") || s.starts_with("https:"));
                            if !absolute {
                                *acc += (root.len() + 1 + s.len()) as u64;
                            }
                        }
                    }
                }
                for x in o.values() {
                    walk(x, acc);
                }
            }
            serde_json::Value::Array(a) => {
                for x in a {
                    walk(x, acc);
                }
            }
            _ => {}
        }
    }
    let start = match d.iter().position(|&b| b == b'{') {
        Some(p) => p,
        None => return 0,
    };
    let mut acc = 0;
    if let Some(Ok(v)) = serde_json::Deserializer::from_slice(&d[start..]).into_iter::<serde_json::Value>().next() {
        walk(&v, &mut acc);
    }
    acc
}

/// F14 (DESIGN.md section 11): `rewrite` and `flatten` hand every token's source and name to the
/// builder as strings, which copies and hashes them once per token, so their cost is
/// (number of tokens) x (length of the source or name). Estimate of that product for the delivered
/// document, summed over every map object in it: mapping segments times the longest string among
/// `sources` (with `sourceRoot` in front) and `names`. Used only to tell the recorded finding
/// from any other run that does not finish.
fn name_length_times_tokens(d: &[u8]) -> u64 {
    fn walk(v: &serde_json::Value, acc: &mut u64) {
        match v {
            serde_json::Value::Object(o) => {
                if let Some(serde_json::Value::String(m)) = o.get("mappings") {
                    let segs = m.split(|c| c == ',' || c == ';').filter(|s| !s.is_empty()).count() as u64;
                    let root = o.get("sourceRoot").and_then(|r| r.as_str()).map(str::len).unwrap_or(0);
                    let longest = |key: &str, extra: usize| {
                        o.get(key).and_then(|a| a.as_array()).map(|a| a.iter().filter_map(|s| s.as_str()).map(|s| s.len() + extra).max().unwrap_or(0)).unwrap_or(0)
                    };
                    let l = longest("sources", root + 1).max(longest("names", 0)) as u64;
                    *acc = acc.saturating_add(segs.saturating_mul(l));
                }
                for x in o.values() {
                    walk(x, acc);
                }
            }
            serde_json::Value::Array(a) => {
                for x in a {
                    walk(x, acc);
                }
            }
            _ => {}
        }
    }
    let Some(start) = d.iter().position(|&b| b == b'{') else { return 0 };
    let mut acc = 0;
    if let Some(Ok(v)) = serde_json::Deserializer::from_slice(&d[start..]).into_iter::<serde_json::Value>().next() {
        walk(&v, &mut acc);
    }
    acc
}

/// Above this product the copies and hashes alone take longer than the quick backstop allows
/// (measured: about 3.6e9 byte-steps per second and rewrite; a run makes up to eight rewrites).
const NAME_LENGTH_TIMES_TOKENS_EXPLAINS: u64 = 5_000_000_000;

pub fn execute(c: &Case) -> Exec {
    let d = delivered(&c.events);
    let mut rdr = SimReader::new(&c.events);
    let mut cx = work::Ctx::new(c.workload_seed, &c.script_text);
    let mut decoded = false;
    let mut map_kind = "-";
    panics::clear();
    let base = alloc::window_start();
    let mut decode_peak = 0u64;
    alloc::window_limit(base, ALLOC_BASE + ALLOC_PER_BYTE * d.len() as u64);
    let res = catch_unwind(AssertUnwindSafe(|| {
        let got = run_entry(c, &d, &mut rdr, &mut cx);
        decode_peak = alloc::window_peak(base);
        if !c.entry.is_script() && c.workload_seed % 4 == 0 {
            // the public VLQ helpers on the segment texts of the delivered document
            let hot = crate::c05_faults::hot_regions(&d);
            for (a, b) in hot.mapping_strings.iter().take(2) {
                if let Ok(text) = std::str::from_utf8(&d[*a..*b]) {
                    for seg in text.split(|ch| ch == ',' || ch == ';').take(24) {
                        cx.call("vlq::parse_vlq_segment");
                        match sourcemap::vlq::parse_vlq_segment(seg) {
                            Ok(v) => {
                                cx.digest.u64(v.len() as u64);
                                // re-encoding is exercised only inside the range the serialiser
                                // itself uses (differences of u32 values); beyond +-2^62 the public
                                // encoder does not terminate, which is a matter for the VLQ
                                // property (C11), not for this one (DESIGN.md §5)
                                if v.iter().all(|x| x.unsigned_abs() < (1 << 33)) {
                                    cx.call("vlq::generate_vlq_segment");
                                    if let Ok(s2) = sourcemap::vlq::generate_vlq_segment(&v) {
                                        cx.digest.u64(s2.len() as u64);
                                    }
                                }
                            }
                            Err(e) => cx.note_err(&e),
                        }
                    }
                }
            }
            cx.call("vlq::generate_vlq_segment");
            for nums in [&[0i64, -1, 1][..], &[4294967295, -4294967295], &[1 << 32, -(1 << 32)]] {
                if let Ok(s2) = sourcemap::vlq::generate_vlq_segment(nums) {
                    cx.digest.u64(s2.len() as u64);
                }
            }
        }
        match &got {
            Got::Nothing => {}
            Got::Decoded(m) => {
                decoded = true;
                map_kind = match m {
                    DecodedMap::Regular(_) => "regular",
                    DecodedMap::Index(_) => "index",
                    DecodedMap::Hermes(_) => "hermes",
                };
                work::decoded(&mut cx, m, c.full_workload);
            }
            Got::Regular(m) => {
                decoded = true;
                map_kind = "regular";
                work::regular(&mut cx, m, c.full_workload);
            }
            Got::Index(m) => {
                decoded = true;
                map_kind = "index";
                work::index(&mut cx, m, c.full_workload);
            }
            Got::Hermes(m) => {
                decoded = true;
                map_kind = "hermes";
                work::hermes(&mut cx, m, c.full_workload);
            }
        }
        drop(got);
    }));
    let peak = alloc::window_peak(base);
    let tripped_in = alloc::window_tripped();
    let log = rdr.log.clone();
    let e = c.entry.name();
    let mut verdict = Verdict::Held;
    if let Err(_) = res {
        let p = panics::take().unwrap_or(panics::PanicInfo { file: "<unknown>".into(), line: 0, msg: "?".into() });
        let api = work::current_api();
        if p.file.starts_with("/verif/") || p.file.starts_with("io/src") || p.file.starts_with("core/src") {
            verdict = Verdict::Harness(format!("harness panic: {} at {}:{}", p.msg, p.file, p.line));
        } else {
            let mut sig = panics::signature(&p);
            if panics::repo_relative(&p.file).is_none() {
                sig.push_str(":in:");
                sig.push_str(api);
            }
            verdict = Verdict::Violated(sig, format!("{} panicked: {} at {}:{} (entry point {e}, doc {})", api, p.msg, p.file, p.line, c.label));
        }
    } else if log.budget_exceeded {
        verdict = Verdict::Violated(
            format!("hang:{e}"),
            format!("{e} polled the reader {} times ({} after end of stream) for {} bytes: no progress", log.read_calls, log.polls_after_eof, d.len()),
        );
    } else if peak > ALLOC_BASE + ALLOC_PER_BYTE * d.len() as u64 {
        // identified by the call during which the limit was first exceeded (all decoding entry
        // points count as one) and by what in the delivered document accounts for the excess
        let limit = ALLOC_BASE + ALLOC_PER_BYTE * d.len() as u64;
        let during = tripped_in.unwrap_or("-");
        let phase = if during == e { "decode" } else { during };
        let prefixed = prefixed_source_bytes(&d);
        // F13 (DESIGN.md section 11): decoding stores sourceRoot + "/" + source per source. A map
        // obtained by rewrite or flatten names its sources by that prefixed form and prefixes them
        // again (generation k holds (2k+1) times the bytes of the first copies); the workload goes
        // two generations deep and decodes their serialisations, so up to POST_DECODE_GENERATIONS
        // times those bytes are this one finding, in whichever call the limit happens to be crossed.
        const POST_DECODE_GENERATIONS: u64 = 24;
        let (phase, class) = if phase == "decode" && decode_peak.saturating_sub(prefixed) <= limit {
            // within the limit but for the copies of sourceRoot that decoding makes per source
            ("decode", "sourceRoot-x-sources")
        } else if phase != "decode" && prefixed > 0 && peak.saturating_sub(prefixed.saturating_mul(POST_DECODE_GENERATIONS)) <= limit {
            ("after-decode", "sourceRoot-x-sources")
        } else {
            (phase, "unexplained")
        };
        verdict = Verdict::Violated(
            format!("alloc:{phase}:{class}"),
            format!("peak allocation {} bytes ({} by the end of decoding) for a {}-byte input (limit 4 MiB + 256 x input), limit first exceeded during {during}; sourceRoot-prefixed copies of the sources account for {} bytes (entry point {e}, doc {})", peak, decode_peak, d.len(), prefixed, c.label),
        );
    } else if let Some((sig, detail)) = cx.soft_violation.clone() {
        verdict = Verdict::Violated(sig, format!("{detail} (entry point {e}, doc {})", c.label));
    }
    let mut h = H64::new();
    h.u64(events_hash(&c.events));
    h.u64(c.entry as u64);
    h.u64(cx.digest.finish());
    h.u64(decoded as u64);
    h.u64(log.read_calls);
    if let Verdict::Violated(s, _) = &verdict {
        h.str(s);
    }
    Exec { verdict, event_hash: h.finish(), decoded, map_kind, peak_alloc: peak, delivered_len: d.len(), log, api_calls: cx.calls, reserialised: cx.reserialised, errors: cx.errors, more: cx.soft_all.iter().map(|(s, d)| (s.clone(), format!("{d} (entry point {e}, doc {})", c.label))).collect() }
}

// ---------------------------------------------------------------- child

#[derive(Default)]
struct Acc {
    runs: u64,
    decoded: u64,
    damaged: u64,
    damaged_decoded: u64,
    read_calls: u64,
    bytes: u64,
    reserialised: u64,
    max_alloc_ratio_milli: u64,
    max_peak: u64,
    traces: KeySet,
    nontrivial: KeySet,
    fired: BTreeMap<String, u64>,
    entries: BTreeMap<String, u64>,
    doc_kinds: BTreeMap<String, u64>,
    map_kinds: BTreeMap<String, u64>,
    api_calls: BTreeMap<String, u64>,
    errors: BTreeMap<String, u64>,
    single_fault: BTreeMap<String, u64>,
    map_entry_damaged: u64,
    map_entry_damaged_decoded: u64,
    doc_fault_pairs: KeySet,
    violations: ViolationTable,
    harness: Vec<String>,
    digest: u64,
    det_checked: u64,
    det_mismatch: Vec<u64>,
    samples: Vec<(u64, Value)>,
}

fn bump(m: &mut BTreeMap<String, u64>, k: &str, n: u64) {
    if n > 0 {
        *m.entry(k.to_string()).or_default() += n;
    }
}

fn account(acc: &mut Acc, i: u64, c: &Case, ex: &Exec) {
    acc.runs += 1;
    let damaged = !c.rest_faults.is_empty() || c.stats.dropped + c.stats.duplicated + c.stats.swapped + c.stats.flipped + c.stats.early_eof > 0;
    if damaged {
        acc.damaged += 1;
        if ex.decoded {
            acc.damaged_decoded += 1;
        }
    }
    if ex.decoded {
        acc.decoded += 1;
    }
    let map_entry = !matches!(c.entry, Entry::DetectSlice | Entry::DetectReader | Entry::LocateReader | Entry::LocateSlice | Entry::ViewReference);
    if damaged && map_entry && !ex.log.hard_error_delivered {
        acc.map_entry_damaged += 1;
        if ex.decoded {
            acc.map_entry_damaged_decoded += 1;
        }
    }
    for (k, v) in &ex.errors {
        bump(&mut acc.errors, k, *v);
    }
    if map_entry && c.rest_faults.len() == 1 && !ex.log.hard_error_delivered && c.stats.dropped + c.stats.duplicated + c.stats.swapped + c.stats.flipped + c.stats.early_eof == 0 {
        bump(&mut acc.single_fault, &format!("{} / total", c.rest_faults[0].name()), 1);
        if ex.decoded {
            bump(&mut acc.single_fault, &format!("{} / still decoded", c.rest_faults[0].name()), 1);
        }
    }
    if map_entry && !damaged && !ex.log.hard_error_delivered {
        bump(&mut acc.single_fault, "undamaged / total", 1);
        if ex.decoded {
            bump(&mut acc.single_fault, "undamaged / still decoded", 1);
        }
    }
    acc.read_calls += ex.log.read_calls;
    acc.bytes += ex.delivered_len as u64;
    acc.reserialised += ex.reserialised;
    acc.max_peak = acc.max_peak.max(ex.peak_alloc);
    if ex.delivered_len > 0 {
        acc.max_alloc_ratio_milli = acc.max_alloc_ratio_milli.max(ex.peak_alloc * 1000 / ex.delivered_len as u64);
    }
    acc.traces.insert(ex.event_hash);
    if ex.decoded && damaged {
        acc.nontrivial.insert(ex.event_hash);
    }
    for f in &c.rest_faults {
        bump(&mut acc.fired, f.name(), 1);
        let mut h = H64::new();
        h.str(&c.label);
        h.u64(*f as u64);
        acc.doc_fault_pairs.insert(h.finish());
    }
    bump(&mut acc.fired, "EINTR delivered", ex.log.interrupted_delivered as u64);
    bump(&mut acc.fired, "hard I/O error delivered", ex.log.hard_error_delivered as u64);
    bump(&mut acc.fired, "chunk dropped", c.stats.dropped as u64);
    bump(&mut acc.fired, "chunk duplicated", c.stats.duplicated as u64);
    bump(&mut acc.fired, "chunks swapped", c.stats.swapped as u64);
    bump(&mut acc.fired, "bit flipped in flight", c.stats.flipped as u64);
    bump(&mut acc.fired, "early end of stream", c.stats.early_eof as u64);
    bump(&mut acc.entries, c.entry.name(), 1);
    bump(&mut acc.doc_kinds, c.doc_kind, 1);
    if ex.decoded && c.label.starts_with("inline:amplify-") {
        bump(&mut acc.doc_kinds, &format!("{} (decoded)", c.label), 1);
    }
    bump(&mut acc.map_kinds, ex.map_kind, 1);
    for (k, v) in &ex.api_calls {
        bump(&mut acc.api_calls, k, *v);
    }
    let mut d = H64::new();
    d.u64(i);
    d.u64(ex.event_hash);
    acc.digest = acc.digest.wrapping_add(d.finish());
    match &ex.verdict {
        Verdict::Held => {}
        Verdict::Violated(sig, detail) => {
            acc.violations.add(sig.clone(), i, detail.clone());
            for (s2, d2) in &ex.more {
                if s2 != sig {
                    acc.violations.add(s2.clone(), i, d2.clone());
                }
            }
        }
        Verdict::Harness(m) => {
            if acc.harness.len() < 3 {
                acc.harness.push(format!("run {i}: {m}"));
            }
        }
    }
}

fn acc_to_json(a: &mut Acc) -> Value {
    json!({
        "runs": a.runs, "decoded": a.decoded, "damaged": a.damaged, "damaged_decoded": a.damaged_decoded,
        "read_calls": a.read_calls, "bytes": a.bytes, "reserialised": a.reserialised,
        "max_alloc_ratio_milli": a.max_alloc_ratio_milli, "max_peak": a.max_peak,
        "fired": a.fired, "entries": a.entries, "doc_kinds": a.doc_kinds, "map_kinds": a.map_kinds, "api_calls": a.api_calls, "errors": a.errors, "single_fault": a.single_fault,
        "map_entry_damaged": a.map_entry_damaged, "map_entry_damaged_decoded": a.map_entry_damaged_decoded,
        "violations": a.violations.0.iter().map(|(k, v)| json!({"sig": k, "idx": v.0, "cnt": v.1, "detail": v.2})).collect::<Vec<_>>(),
        "harness": a.harness, "digest": a.digest, "det_checked": a.det_checked, "det_mismatch": a.det_mismatch,
        "samples": a.samples.iter().map(|s| json!({"i": s.0, "v": s.1})).collect::<Vec<_>>(),
    })
}

fn merge_json(a: &mut Acc, v: &Value) {
    let u = |k: &str| v[k].as_u64().unwrap_or(0);
    a.runs += u("runs");
    a.decoded += u("decoded");
    a.damaged += u("damaged");
    a.damaged_decoded += u("damaged_decoded");
    a.read_calls += u("read_calls");
    a.bytes += u("bytes");
    a.reserialised += u("reserialised");
    a.max_alloc_ratio_milli = a.max_alloc_ratio_milli.max(u("max_alloc_ratio_milli"));
    a.max_peak = a.max_peak.max(u("max_peak"));
    let mm = |m: &mut BTreeMap<String, u64>, k: &str| {
        if let Some(o) = v[k].as_object() {
            for (kk, vv) in o {
                *m.entry(kk.clone()).or_default() += vv.as_u64().unwrap_or(0);
            }
        }
    };
    mm(&mut a.fired, "fired");
    mm(&mut a.entries, "entries");
    mm(&mut a.doc_kinds, "doc_kinds");
    mm(&mut a.map_kinds, "map_kinds");
    mm(&mut a.api_calls, "api_calls");
    mm(&mut a.errors, "errors");
    mm(&mut a.single_fault, "single_fault");
    a.map_entry_damaged += u("map_entry_damaged");
    a.map_entry_damaged_decoded += u("map_entry_damaged_decoded");
    if let Some(vs) = v["violations"].as_array() {
        for x in vs {
            let sig = x["sig"].as_str().unwrap_or("").to_string();
            let idx = x["idx"].as_u64().unwrap_or(0);
            let cnt = x["cnt"].as_u64().unwrap_or(1);
            let det = x["detail"].as_str().unwrap_or("").to_string();
            let e = a.violations.0.entry(sig).or_insert((idx, 0, det.clone()));
            e.1 += cnt;
            if idx < e.0 {
                e.0 = idx;
                e.2 = det;
            }
        }
    }
    if let Some(h) = v["harness"].as_array() {
        a.harness.extend(h.iter().filter_map(|s| s.as_str().map(str::to_string)));
    }
    a.digest = a.digest.wrapping_add(u("digest"));
    a.det_checked += u("det_checked");
    if let Some(h) = v["det_mismatch"].as_array() {
        a.det_mismatch.extend(h.iter().filter_map(|s| s.as_u64()));
    }
    if let Some(s) = v["samples"].as_array() {
        for x in s {
            a.samples.push((x["i"].as_u64().unwrap_or(0), x["v"].clone()));
        }
    }
}

fn write_keys(path: &str, ks: &mut KeySet) {
    // KeySet has no iterator on purpose; serialise through its sorted vector
    let n = ks.len();
    let _ = n;
    let bytes: Vec<u8> = ks.sorted().iter().flat_map(|k| k.to_le_bytes()).collect();
    std::fs::write(path, bytes).unwrap_or_else(|e| harness_error(&format!("write {path}: {e}")));
}

fn read_keys(path: &str, into: &mut KeySet) {
    if let Ok(b) = std::fs::read(path) {
        let mut other = KeySet::default();
        for c in b.chunks_exact(8) {
            other.insert(u64::from_le_bytes(c.try_into().unwrap()));
        }
        into.merge(other);
    }
}

fn child_main(args: &Args) -> i32 {
    use std::os::unix::fs::FileExt;
    let lo = args.num("--start").unwrap_or(0);
    let hi = args.num("--end").unwrap_or(0);
    let base_seed = args.num("--seed").unwrap_or(simcore::DEFAULT_SEED);
    let det_n = args.num("--det").unwrap_or(0);
    let out = args.value("--out").unwrap_or_else(|| harness_error("child needs --out"));
    unsafe {
        let lim = libc::rlimit { rlim_cur: 8 << 30, rlim_max: 8 << 30 };
        libc::setrlimit(libc::RLIMIT_AS, &lim);
    }
    let inflight = std::fs::OpenOptions::new()
        .create(true)
        .write(true)
        .truncate(false)
        .open(format!("{out}.inflight"))
        .unwrap_or_else(|e| harness_error(&format!("inflight file: {e}")));
    let fx = Fixtures::load();
    let mut acc = Acc::default();
    for i in lo..hi {
        // announce the run before starting it
        let _ = inflight.write_at(&(i + 1).to_le_bytes(), 0);
        let run_seed = rng::mix(base_seed, run_domain(), i);
        let c = gen_case(&mut Rng::new(run_seed), &fx);
        let ex = execute(&c);
        if i < det_n {
            acc.det_checked += 1;
            let c2 = gen_case(&mut Rng::new(run_seed), &fx);
            if execute(&c2).event_hash != ex.event_hash {
                acc.det_mismatch.push(i);
            }
        }
        account(&mut acc, i, &c, &ex);
        if i < 3 {
            acc.samples.push((i, json!({"run_index": i, "run_seed": run_seed, "case": c.summary(), "decoded": ex.decoded, "map_kind": ex.map_kind,
                "peak_alloc_bytes": ex.peak_alloc, "read_calls": ex.log.read_calls,
                "library_calls": ex.api_calls.values().sum::<u64>()})));
        }
    }
    let _ = inflight.write_at(&0u64.to_le_bytes(), 0);
    write_keys(&format!("{out}.traces"), &mut acc.traces);
    write_keys(&format!("{out}.nontrivial"), &mut acc.nontrivial);
    write_keys(&format!("{out}.pairs"), &mut acc.doc_fault_pairs);
    simcore::write_json_atomic(&format!("{out}.json"), &acc_to_json(&mut acc));
    0
}

// ---------------------------------------------------------------- replay

fn replay_child(path: &str) -> i32 {
    let v = simcore::read_json(path);
    let c = Case::from_json(&v["case"]).unwrap_or_else(|| harness_error("replay file: bad case"));
    let times = std::env::var("VERIF_DEBUG_TIMES").is_ok();
    if times {
        work::TIMES.with(|t| *t.borrow_mut() = Some((std::time::Instant::now(), Default::default())));
    }
    let ex = execute(&c);
    if times {
        work::TIMES.with(|t| {
            if let Some((_, m)) = t.borrow().as_ref() {
                let mut v: Vec<_> = m.iter().collect();
                v.sort_by(|a, b| b.1.partial_cmp(a.1).unwrap());
                for (k, s) in v.iter().take(12) {
                    eprintln!("time {s:8.3}s  {k}");
                }
            }
        });
    }
    // a run can violate the property in more than one way (say, a rewrite that panics and a
    // serialised form that does not decode again); a replay file names the one it is about
    if let Some(want) = v["signature"].as_str() {
        let primary = matches!(&ex.verdict, Verdict::Violated(s, _) if s == want);
        if !primary && !matches!(&ex.verdict, Verdict::Harness(_)) {
            if let Some((s, d)) = ex.more.iter().find(|(s, _)| s == want) {
                println!("RESULT violated sig={s} hash={:016x}", ex.event_hash);
                println!("detail: {d}");
                return 0;
            }
        }
    }
    match &ex.verdict {
        Verdict::Held => println!("RESULT held hash={:016x}", ex.event_hash),
        Verdict::Violated(s, d) => {
            println!("RESULT violated sig={s} hash={:016x}", ex.event_hash);
            println!("detail: {d}");
        }
        Verdict::Harness(m) => println!("RESULT harness {m}"),
    }
    0
}

/// Run a case in a fresh child; returns (signature or "held", event hash text, detail).
fn run_case_in_child(path: &str, timeout_s: u64) -> (String, String, String) {
    let exe = std::env::current_exe().unwrap_or_else(|e| harness_error(&format!("current_exe: {e}")));
    let mut child = std::process::Command::new(exe)
        .args([PROP, "--replay-child", path])
        .stdout(std::process::Stdio::piped())
        .stderr(std::process::Stdio::null())
        .spawn()
        .unwrap_or_else(|e| harness_error(&format!("spawn: {e}")));
    let mut watch = Watch::new(child.id());
    loop {
        match child.try_wait() {
            Ok(Some(st)) => {
                let mut s = String::new();
                if let Some(mut o) = child.stdout.take() {
                    let _ = o.read_to_string(&mut s);
                }
                if let Some(line) = s.lines().find(|l| l.starts_with("RESULT ")) {
                    let detail = s.lines().find(|l| l.starts_with("detail: ")).unwrap_or("").to_string();
                    let hash = line.split("hash=").nth(1).unwrap_or("").trim().to_string();
                    if line.starts_with("RESULT held") {
                        return ("held".into(), hash, detail);
                    }
                    if let Some(rest) = line.strip_prefix("RESULT violated sig=") {
                        let sig = rest.split(" hash=").next().unwrap_or("").to_string();
                        return (sig, hash, detail);
                    }
                    return ("harness".into(), String::new(), line.to_string());
                }
                use std::os::unix::process::ExitStatusExt;
                let how = match st.signal() {
                    Some(sig) => format!("signal-{sig}"),
                    None => format!("exit-{}", st.code().unwrap_or(-1)),
                };
                return (format!("abort:{how}"), String::new(), format!("the process died ({how}) while executing the case"));
            }
            Ok(None) => {
                if watch.stalled(child.id(), timeout_s) {
                    let _ = child.kill();
                    let _ = child.wait();
                    return ("hang-backstop".into(), String::new(), format!("no result within {timeout_s} s of CPU time (or blocked for as long)"));
                }
                std::thread::sleep(std::time::Duration::from_millis(5));
            }
            Err(e) => harness_error(&format!("wait: {e}")),
        }
    }
}

fn do_replay(path: &str) -> i32 {
    let v = simcore::read_json(path);
    if v["engine"].as_str().map(|e| e.contains("time-proportionality")).unwrap_or(false) {
        return crate::c05_scale::replay(path);
    }
    let want_sig = v["signature"].as_str().unwrap_or("").to_string();
    let want_hash = v["event_hash"].as_str().unwrap_or("").to_string();
    let (sig, hash, detail) = run_case_in_child(path, 60);
    println!("replayed: signature={sig}\n{detail}");
    if sig == "held" {
        println!("replay of {path}: property held (recorded signature {want_sig}); the tree no longer fails this trace");
        return 0;
    }
    let entry_free = |s: &str| s.to_string();
    if entry_free(&sig) == want_sig && (want_hash.is_empty() || hash.is_empty() || hash == want_hash) {
        println!("VIOLATION property={PROP} replay={path}");
        1
    } else {
        println!("HARNESS-ERROR: replay diverged (signature {sig} vs {want_sig}, event hash {hash} vs {want_hash})");
        2
    }
}

// ---------------------------------------------------------------- minimiser

fn minimise(c0: &Case, sig: &str, scratch: &str) -> (Case, Value) {
    // abort-class violations cannot be probed in-process
    let in_process = !sig.starts_with("abort:") && !sig.starts_with("hang-backstop");
    let probes = std::cell::Cell::new(0u64);
    let fails = |c: &Case| -> bool {
        probes.set(probes.get() + 1);
        if in_process {
            let ex = execute(c);
            matches!(&ex.verdict, Verdict::Violated(s, _) if s == sig) || (!matches!(&ex.verdict, Verdict::Harness(_)) && ex.more.iter().any(|(s, _)| s == sig))
        } else {
            let p = format!("{scratch}.probe.json");
            simcore::write_json_atomic(&p, &json!({"case": c.to_json()}));
            run_case_in_child(&p, 60).0 == sig
        }
    };
    let budget = if in_process { 4000 } else { 60 };
    let mut c = c0.clone();
    if sig.starts_with("hang-backstop") {
        // every probe would cost the wall-clock backstop: report the case as generated
        return (c, json!({"probes": 0, "note": "not minimised: each probe of a stalled run costs the backstop"}));
    }
    // 1. transport: no control events, one chunk
    let d = delivered(&c.events);
    {
        let mut cand = c.clone();
        cand.events = vec![Event::Data(d.clone())];
        if fails(&cand) {
            c = cand;
        }
    }
    // 2. smaller workload
    if c.full_workload {
        let mut cand = c.clone();
        cand.full_workload = false;
        if fails(&cand) {
            c = cand;
        }
    }
    // 3. revert damaged bytes towards the original where lengths agree (ddmin over diff positions)
    if c.events.len() == 1 {
        if let Event::Data(cur) = &c.events[0] {
            let cur = cur.clone();
            // align: the stored document may carry a header in front of the original
            let off = cur.len() as isize - c.original.len() as isize;
            if off >= 0 && (off as usize) < 64 {
                let off = off as usize;
                let diffs: Vec<usize> = (0..c.original.len()).filter(|&k| cur[off + k] != c.original[k]).collect();
                if !diffs.is_empty() && diffs.len() <= 600 {
                    let orig = c.original.clone();
                    let base = c.clone();
                    let keep = simcore::ddmin::ddmin(
                        &diffs,
                        |subset| {
                            let mut bytes = cur.clone();
                            for &k in &diffs {
                                if !subset.contains(&k) {
                                    bytes[off + k] = orig[k];
                                }
                            }
                            let mut cand = base.clone();
                            cand.events = vec![Event::Data(bytes)];
                            fails(&cand)
                        },
                        budget,
                    );
                    let mut bytes = cur.clone();
                    for &k in &diffs {
                        if !keep.contains(&k) {
                            bytes[off + k] = orig[k];
                        }
                    }
                    let mut cand = c.clone();
                    cand.events = vec![Event::Data(bytes)];
                    if fails(&cand) {
                        c = cand;
                    }
                }
            }
        }
    }
    let info = json!({"probes": probes.get(), "in_process": in_process, "original_events": c0.events.len(), "minimised_events": c.events.len(),
        "bytes_differing_from_the_undamaged_document": match c.events.first() {
            Some(Event::Data(cur)) if c.events.len() == 1 && cur.len() >= c.original.len() => {
                let off = cur.len() - c.original.len();
                json!((0..c.original.len()).filter(|&k| cur[off + k] != c.original[k]).count())
            }
            _ => json!(null),
        }});
    (c, info)
}

// ---------------------------------------------------------------- parent

struct Slot {
    child: std::process::Child,
    out: String,
    lo: u64,
    hi: u64,
    last_idx: u64,
    since: std::time::Instant,
    /// progress watch, restarted whenever the child announces a new run
    watch: Watch,
}

pub(crate) use simcore::isolate::Watch;

fn on_case_thread<F: FnOnce() -> i32 + Send + 'static>(f: F) -> i32 {
    std::thread::Builder::new()
        .name("case".into())
        .stack_size(CASE_STACK)
        .spawn(f)
        .unwrap_or_else(|e| harness_error(&format!("spawn case thread: {e}")))
        .join()
        .unwrap_or_else(|_| harness_error("case thread panicked outside a monitored call"))
}

pub fn main(args: &Args) -> i32 {
    if let Some(shape) = args.value("--scale-child") {
        let n = args.num("--n").unwrap_or(1000) as usize;
        let seed = args.num("--seed").unwrap_or(1);
        let shape = shape.to_string();
        return on_case_thread(move || crate::c05_scale::child(&shape, n, seed));
    }
    if args.flag("--scale-stage") {
        return crate::c05_scale::stage(args);
    }
    if args.flag("--child") {
        let a = Args(args.0.clone());
        return on_case_thread(move || child_main(&a));
    }
    if let Some(p) = args.value("--replay-child") {
        let p = p.to_string();
        return on_case_thread(move || replay_child(&p));
    }
    if let Some(path) = args.value("--replay") {
        return do_replay(path);
    }
    let tier = simcore::tier_from(args);
    let base_seed = args.num("--seed").unwrap_or_else(simcore::seed_from_env);
    if let Some(idx) = args.num("--dump-case") {
        // debugging aid: write run <idx> of this seed as a replay file (stdout names it)
        let fx = Fixtures::load();
        let c = gen_case(&mut Rng::new(rng::mix(base_seed, run_domain(), idx)), &fx);
        let path = format!("{}/replays/{PROP}-{}-{}.case.json", simcore::verif_dir(), base_seed, idx);
        simcore::write_json_atomic(&path, &json!({"case": c.to_json()}));
        println!("{path} doc={} entry={} full_workload={}", c.label, c.entry.name(), c.full_workload);
        return 0;
    }
    let workers = args.num("--workers").map(|w| w as usize).unwrap_or_else(simcore::par::workers_from_env);
    let runs = args.num("--runs").unwrap_or(match (tier, debug_stage()) {
        (Tier::Quick, false) => 1_000_000,
        (Tier::Thorough, false) => 60_000_000,
        (Tier::Quick, true) => 30_000,
        (Tier::Thorough, true) => 1_500_000,
    });
    let det_n = match tier {
        Tier::Quick => 200.min(runs),
        Tier::Thorough => 2000.min(runs),
    };
    // unoptimised library code is an order of magnitude slower on the large documents
    let backstop = match (tier, debug_stage()) {
        (Tier::Quick, false) => 40u64,
        (Tier::Thorough, false) => 120,
        (_, true) => 240,
    };
    println!("sim_io property={PROP} tier={} VERIF_SEED={base_seed} runs={runs} worker_processes={workers}{}", tier.name(), if debug_stage() { " stage=debug-profile (library at opt-level 0, debug assertions on)" } else { "" });
    let t0 = std::time::Instant::now();
    let work_dir = format!("{}/sim/target/c05-work-{}", simcore::verif_dir(), std::process::id());
    let _ = std::fs::remove_dir_all(&work_dir);
    std::fs::create_dir_all(&work_dir).unwrap_or_else(|e| harness_error(&format!("mkdir {work_dir}: {e}")));
    let exe = std::env::current_exe().unwrap_or_else(|e| harness_error(&format!("current_exe: {e}")));
    let seg = ((runs / (workers as u64 * 8)).max(500)).min(50_000);
    let mut queue: std::collections::VecDeque<(u64, u64)> = std::collections::VecDeque::new();
    let mut lo = 0;
    while lo < runs {
        let hi = (lo + seg).min(runs);
        queue.push_back((lo, hi));
        lo = hi;
    }
    let mut slots: Vec<Option<Slot>> = (0..workers).map(|_| None).collect();
    let mut acc = Acc::default();
    let mut seq = 0u64;
    let mut process_deaths = 0u64;
    let mut backstop_hits = 0u64;
    let mut lost_runs = 0u64;
    let mut suspects: Vec<(u64, String)> = Vec::new();
    let mut aborted_early = false;
    const MAX_SUSPECTS: usize = 4;
    loop {
        let mut busy = false;
        for w in 0..workers {
            if slots[w].is_none() {
                if let Some((lo, hi)) = queue.pop_front() {
                    seq += 1;
                    let out = format!("{work_dir}/seg{seq}");
                    let child = std::process::Command::new(&exe)
                        .args([PROP, "--child", "--start", &lo.to_string(), "--end", &hi.to_string(), "--seed", &base_seed.to_string(), "--det", &det_n.to_string(), "--out", &out])
                        .stdout(std::process::Stdio::null())
                        .stderr(std::process::Stdio::null())
                        .spawn()
                        .unwrap_or_else(|e| harness_error(&format!("spawn child: {e}")));
                    let watch = Watch::new(child.id());
                    slots[w] = Some(Slot { child, out, lo, hi, last_idx: 0, since: std::time::Instant::now(), watch });
                }
            }
            let mut finished = None;
            if let Some(s) = slots[w].as_mut() {
                busy = true;
                let inflight = std::fs::read(format!("{}.inflight", s.out)).ok().filter(|b| b.len() >= 8).map(|b| u64::from_le_bytes(b[..8].try_into().unwrap())).unwrap_or(0);
                if inflight != s.last_idx {
                    s.last_idx = inflight;
                    s.since = std::time::Instant::now();
                    s.watch = Watch::new(s.child.id());
                }
                match s.child.try_wait() {
                    Ok(Some(st)) => finished = Some((st, false)),
                    Ok(None) => {
                        let pid = s.child.id();
                        if s.watch.stalled(pid, backstop) && s.last_idx > 0 {
                            let _ = s.child.kill();
                            let st = s.child.wait().unwrap();
                            finished = Some((st, true));
                        }
                    }
                    Err(e) => harness_error(&format!("wait: {e}")),
                }
            }
            if let Some((st, killed)) = finished {
                let s = slots[w].take().unwrap();
                let result = format!("{}.json", s.out);
                if !killed && st.success() && std::path::Path::new(&result).exists() {
                    let v = simcore::read_json(&result);
                    merge_json(&mut acc, &v);
                    read_keys(&format!("{}.traces", s.out), &mut acc.traces);
                    read_keys(&format!("{}.nontrivial", s.out), &mut acc.nontrivial);
                    read_keys(&format!("{}.pairs", s.out), &mut acc.doc_fault_pairs);
                } else {
                    use std::os::unix::process::ExitStatusExt;
                    if s.last_idx == 0 {
                        harness_error(&format!("a worker process died before announcing a run (status {st:?})"));
                    }
                    let idx = s.last_idx - 1;
                    let how = if killed {
                        backstop_hits += 1;
                        "hang-backstop".to_string()
                    } else {
                        process_deaths += 1;
                        match st.signal() {
                            Some(sig) => format!("abort:signal-{sig}"),
                            None => format!("abort:exit-{}", st.code().unwrap_or(-1)),
                        }
                    };
                    suspects.push((idx, how));
                    lost_runs += idx - s.lo;
                    if idx + 1 < s.hi {
                        queue.push_front((idx + 1, s.hi));
                    }
                }
                for ext in ["json", "inflight", "traces", "nontrivial", "pairs"] {
                    let _ = std::fs::remove_file(format!("{}.{ext}", s.out));
                }
            }
        }
        if suspects.len() >= MAX_SUSPECTS {
            // enough evidence that something kills or stalls runs: stop the batch instead of paying
            // the backstop once per affected run
            aborted_early = true;
            queue.clear();
            for slot in slots.iter_mut() {
                if let Some(mut s) = slot.take() {
                    let _ = s.child.kill();
                    let _ = s.child.wait();
                    lost_runs += s.hi - s.lo;
                    for ext in ["json", "inflight", "traces", "nontrivial", "pairs"] {
                        let _ = std::fs::remove_file(format!("{}.{ext}", s.out));
                    }
                }
            }
            break;
        }
        if !busy && queue.is_empty() {
            break;
        }
        std::thread::sleep(std::time::Duration::from_millis(3));
    }
    // confirm suspects alone before believing them (the lowest few: each stalled one costs the backstop)
    let fx = Fixtures::load();
    suspects.sort();
    let unconfirmed = suspects.len().saturating_sub(MAX_SUSPECTS);
    suspects.truncate(MAX_SUSPECTS);
    if unconfirmed > 0 {
        println!("note: {unconfirmed} further runs were in flight when their workers ended; only the lowest {MAX_SUSPECTS} are re-run alone");
    }
    for (idx, how) in suspects {
        let run_seed = rng::mix(base_seed, run_domain(), idx);
        let c = gen_case(&mut Rng::new(run_seed), &fx);
        let p = format!("{work_dir}/suspect-{idx}.json");
        simcore::write_json_atomic(&p, &json!({"case": c.to_json()}));
        let (sig, _h, detail) = run_case_in_child(&p, backstop * 2);
        if sig == "held" {
            println!("note: run {idx} was in flight when its worker ended ({how}) but completes on its own; not reported");
        } else if sig == "harness" {
            acc.harness.push(format!("run {idx}: {detail}"));
        } else {
            let w = if sig == "hang-backstop" { name_length_times_tokens(&delivered(&c.events)) } else { 0 };
            let (sig, detail) = if sig == "hang-backstop" && w >= NAME_LENGTH_TIMES_TOKENS_EXPLAINS {
                ("hang-backstop:name-length-x-tokens".to_string(), format!("{detail}; the document has (mapping segments) x (longest source or name) = {w} byte-steps, which rewrite and flatten spend once over"))
            } else if sig.starts_with("abort:") || sig == "hang-backstop" {
                (format!("{sig}:{}", c.entry.name()), detail)
            } else {
                (sig, detail)
            };
            acc.violations.add(sig, idx, format!("{detail} (entry point {}, doc {})", c.entry.name(), c.label));
        }
    }
    acc.samples.sort_by_key(|s| s.0);
    let wall = t0.elapsed().as_secs_f64();
    if args.flag("--digest") {
        println!("DIGEST {:016x} runs={} violations={}", acc.digest, acc.runs, acc.violations.total());
        let _ = std::fs::remove_dir_all(&work_dir);
        return 0;
    }
    if !acc.det_mismatch.is_empty() {
        harness_error(&format!("determinism self-test failed for runs {:?}", acc.det_mismatch));
    }
    if !acc.harness.is_empty() {
        harness_error(&acc.harness.join(" | "));
    }
    let findings = simcore::load_findings();
    let (known, new) = acc.violations.classify(PROP, &findings);
    for l in &known {
        println!("{l}");
    }
    let mut reported = Vec::new();
    let mut hang_reports = 0;
    for (sig, idx, cnt, detail0) in new.iter().take(8) {
        let run_seed = rng::mix(base_seed, run_domain(), *idx);
        let c = gen_case(&mut Rng::new(run_seed), &fx);
        // abort-class signatures carry the entry-point suffix added above; probe on the bare class
        let probe_sig = if sig.starts_with("hang-backstop") {
            "hang-backstop".to_string()
        } else if sig.starts_with("abort:") {
            sig.strip_suffix(&format!(":{}", c.entry.name())).unwrap_or(sig).to_string()
        } else {
            sig.clone()
        };
        if probe_sig == "hang-backstop" {
            hang_reports += 1;
            if hang_reports > 2 {
                println!("violation: signature={sig} runs={cnt} first_run={idx} :: (further stalled runs are not replayed one by one: each costs the backstop)");
                continue;
            }
        }
        let (cm, info) = minimise(&c, &probe_sig, &format!("{work_dir}/min-{idx}"));
        let path = format!("{}/replays/{PROP}-{}{}-{}.json", simcore::verif_dir(), if debug_stage() { "debugprofile-" } else { "" }, base_seed, idx);
        simcore::write_json_atomic(&path, &json!({"case": cm.to_json(), "signature": probe_sig}));
        let (rsig, rhash, rdetail) = run_case_in_child(&path, backstop + 10);
        let (final_case, detail, hash) = if rsig == probe_sig { (cm, rdetail, rhash) } else { (c.clone(), detail0.clone(), String::new()) };
        let d = delivered(&final_case.events);
        simcore::write_json_atomic(
            &path,
            &json!({"property": PROP, "engine": "sim_io/c05 (SimDisk damage + SimTransport/SimReader + monitors, child process)", "profile": if debug_stage() { "devsim" } else { "release" }, "base_seed": base_seed, "run_index": idx,
                    "case": final_case.to_json(), "signature": probe_sig, "detail": detail, "event_hash": hash, "minimisation": info,
                    "delivered_text": String::from_utf8_lossy(&d[..d.len().min(400)])}),
        );
        let (vsig, _, _) = run_case_in_child(&path, backstop + 10);
        if vsig != probe_sig {
            harness_error(&format!("replay file {path} did not reproduce in a fresh process ({vsig} vs {probe_sig})"));
        }
        println!("violation: signature={sig} runs={cnt} first_run={idx} :: {detail}");
        println!("VIOLATION property={PROP} replay={path}");
        reported.push(json!({"signature": sig, "runs": cnt, "first_run": idx, "replay": path, "detail": detail}));
    }
    let _ = std::fs::remove_dir_all(&work_dir);
    let mut probe_fail = Vec::new();
    if !aborted_early && (tier == Tier::Thorough || runs >= 100_000) {
        for f in RestFault::ALL {
            if acc.fired.get(f.name()).copied().unwrap_or(0) == 0 {
                probe_fail.push(f.name().to_string());
            }
        }
        for must in ["EINTR delivered", "hard I/O error delivered", "chunk dropped", "early end of stream"] {
            if acc.fired.get(must).copied().unwrap_or(0) == 0 {
                probe_fail.push(must.to_string());
            }
        }
        for must in ["regular", "index", "hermes"] {
            if acc.map_kinds.get(must).copied().unwrap_or(0) == 0 {
                probe_fail.push(format!("decoded {must} maps"));
            }
        }
        for must in ["SourceMapIndex::flatten", "SourceMap::rewrite", "SourceMapHermes::get_scope_for_token", "SourceMap::to_writer", "SourceMap::get_original_function_name", "SourceMapRef::get_embedded_sourcemap"] {
            if acc.api_calls.get(must).copied().unwrap_or(0) == 0 {
                probe_fail.push(format!("calls to {must}"));
            }
        }
        for &k in &fx.amplify {
            let must = format!("{} (decoded)", fx.maps[k].label);
            if acc.doc_kinds.get(&must).copied().unwrap_or(0) == 0 {
                probe_fail.push(must);
            }
        }
        if acc.map_entry_damaged > 0 && acc.map_entry_damaged_decoded * 100 / acc.map_entry_damaged < 25 {
            probe_fail.push(format!("progress: only {} of {} damaged documents still decoded", acc.map_entry_damaged_decoded, acc.map_entry_damaged));
        }
    }
    let traces = acc.traces.len();
    let nontrivial = acc.nontrivial.len();
    let pairs = acc.doc_fault_pairs.len();
    let ev = json!({
        "property_id": PROP, "tier": tier.name(), "seed": base_seed, "level": "fault_enumeration",
        "wall_s": wall, "violations": reported.len(),
        "coverage": {
            "evaluations": acc.runs,
            "distinct_nontrivial": nontrivial,
            "rule": "one evaluation = one stored document (fixture map or script, synthetic regular/index/Hermes map, non-map, invalid) damaged at rest by 0..3 seeded faults, delivered through the seeded transport/reader (or as a slice / data URL) into one seeded decoding or detection entry point, followed by the seeded post-decode workload on whatever map came back, all under panic, allocation and read-budget monitors in a child process; distinct = distinct (event trace, entry point, workload digest) by 64-bit hash; non-trivial = at least one at-rest or in-flight content fault fired AND a map was still returned (so the workload ran on damaged state)",
            "samples": acc.samples.iter().map(|s| s.1.clone()).collect::<Vec<_>>(),
            "distinct_traces": traces,
            "distinct (document, fault kind) pairs": pairs,
            "runs_returning_a_map": acc.decoded,
            "damaged_runs": acc.damaged,
            "damaged_runs_still_decoding": acc.damaged_decoded,
            "progress (damaged documents given to a map-returning entry point without an injected hard error: total / still returned a map)": [acc.map_entry_damaged, acc.map_entry_damaged_decoded],
            "errors_returned_by_class": acc.errors,
            "decode_rate_by_fault_kind (runs with exactly that one at-rest fault, map-returning entry points)": acc.single_fault,
            "fault_kinds_fired": acc.fired,
            "entry_points": acc.entries,
            "document_kinds": acc.doc_kinds,
            "returned_map_kinds": acc.map_kinds,
            "library_calls_by_api": acc.api_calls,
            "reserialised_and_decoded_again": acc.reserialised,
            "peak_allocation": {"max_bytes_in_a_run": acc.max_peak, "max_ratio_to_input_x1000": acc.max_alloc_ratio_milli, "limit": "4 MiB + 256 x input bytes"},
            "simulated_time": {"unit": "read calls served (no clock in the crate)", "read_calls": acc.read_calls, "bytes_delivered": acc.bytes},
            "worker_process_deaths": process_deaths,
            "batch_stopped_early_after_suspects": aborted_early,
            "wall_clock_backstop_hits": backstop_hits,
            "runs_lost_with_dead_workers (not counted in evaluations)": lost_runs,
            "runs_per_hour": if wall > 0.0 { (acc.runs as f64 / wall * 3600.0) as u64 } else { 0 },
            "determinism_selftest": {"runs_executed_twice": acc.det_checked, "mismatches": 0, "batch_digest": format!("{:016x}", acc.digest)},
            "violating_runs_total": acc.violations.total(),
            "known_findings_hit": known,
            "reported": reported,
            "real_vs_stub": {
                "real": ["every decoding/detection entry point, accessors, lookup, formatters, function-name resolution, rewrite, flatten, serialisation (crate as shipped, guard off, overflow-checks on)", "serde_json, bitvec, data-encoding, url, debugid", "global allocator (System, wrapped by a counter)"],
                "stub": ["the stored document (SimDisk with at-rest faults)", "the transport and the Read object (SimTransport/SimReader)"]
            },
        },
        "assumptions": [
            "claimed for the fault-reachable part of the property only (documents that were well-formed when written, then damaged at rest or in flight, plus garbage sectors); adversarially constructed inputs are outside a fault model (DESIGN.md §4.4)",
            "serialisation is exercised only while the greatest generated line is below 100000 (the property's own bound)",
            "the backstop (CPU seconds used by the worker on one run; wall-clock time only as a tenfold outer bound) is the only place real time can influence a verdict; a hit is re-run alone before it is reported",
            "sampled, not exhaustive"
        ],
    });
    if debug_stage() {
        // the driver merges this into evidence/C05.json under coverage.debug_profile_stage
        simcore::write_json_atomic(&format!("{}/sim/target/{PROP}-debug-stage.json", simcore::verif_dir()), &ev);
    } else {
        simcore::write_json_atomic(&format!("{}/evidence/{PROP}.json", simcore::verif_dir()), &ev);
    }
    println!(
        "runs={} decoded={} damaged={} damaged_decoded={} traces={} nontrivial={} deaths={} backstop={} violating_runs={} wall={:.1}s digest={:016x}",
        acc.runs, acc.decoded, acc.damaged, acc.damaged_decoded, traces, nontrivial, process_deaths, backstop_hits, acc.violations.total(), wall, acc.digest
    );
    let _ = std::io::stdout().flush();
    if !new.is_empty() {
        return 1;
    }
    if !probe_fail.is_empty() {
        harness_error(&format!("workload does not reach: {}", probe_fail.join("; ")));
    }
    0
}
