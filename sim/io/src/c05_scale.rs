//! C05, proportionality monitor for *time*: the same document shape at size n and at 4n, every
//! decoding / query / rewriting / flattening / serialising call measured in CPU time of the
//! calling thread. Work that is linear (or n log n) in the document grows about fourfold;
//! work that is quadratic grows sixteenfold and, at the sizes used, from milliseconds to
//! seconds. A call is reported when its time at 4n is more than RATIO_LIMIT times its time at n
//! *and* more than ABS_FLOOR seconds (or when a whole shape does not finish within CPU_CAP seconds).
//!
//! This is a watchdog on the simulated workload, not a simulation of its own: there is no
//! schedule or fault in it, only the seeded choice of sizes. It exists because the per-run
//! backstop sees super-linear time only on the few very large documents of the zoo.
//! Each shape runs in a child process (a quadratic call at 4n may take minutes).

use simcore::rng::Rng;
use sourcemap::{DecodedMap, RewriteOptions, SourceView};
use std::fmt::Write as _;

pub const RATIO_LIMIT: f64 = 12.0;
pub const ABS_FLOOR: f64 = 0.5;
pub const CPU_CAP: u64 = 60;

pub const SHAPES: [&str; 13] = ["lines-with-range-mappings", "one-line-segments", "names", "sources-with-contents", "text-and-tokens", "index-sections", "hermes-scopes", "equal-positions", "sourceroot-absolute-sources", "index-of-hermes-equal-scopes", "hermes-equal-scopes", "long-source-name-and-tokens", "long-name-and-tokens"];

fn cpu_now() -> f64 {
    let mut ts = libc::timespec { tv_sec: 0, tv_nsec: 0 };
    unsafe {
        libc::clock_gettime(libc::CLOCK_THREAD_CPUTIME_ID, &mut ts);
    }
    ts.tv_sec as f64 + ts.tv_nsec as f64 * 1e-9
}

fn toks(n: usize, per_line: usize, first: &str, next: &str) -> String {
    let mut m = String::with_capacity(n * 6);
    m.push_str(first);
    for k in 1..n {
        if k % per_line == 0 {
            m.push(';');
            m.push('A');
            m.push_str(&next[1..]);
        } else {
            m.push(',');
            m.push_str(next);
        }
    }
    m
}

fn list(n: usize, f: &dyn Fn(usize) -> String) -> String {
    (0..n).map(f).collect::<Vec<_>>().join(",")
}

/// The document of a shape at size n (n counts the dominant dimension; every other dimension of
/// the shape grows with it, so that a cost that is a *product* of two of them shows as quadratic).
pub fn document(shape: &str, n: usize) -> String {
    match shape {
        "lines-with-range-mappings" => {
            let mut m = String::new();
            let mut r = String::new();
            for k in 0..n {
                if k > 0 {
                    m.push(';');
                    r.push(';');
                }
                m.push_str(if k % 3 == 0 { "AAAA,CAAC" } else { "AACA" });
                if k % 5 == 0 {
                    r.push('B');
                }
            }
            format!("{{\"version\":3,\"sources\":[\"a.js\"],\"names\":[],\"mappings\":\"{m}\",\"rangeMappings\":\"{r}\"}}")
        }
        "one-line-segments" => format!("{{\"version\":3,\"sources\":[\"a.js\"],\"names\":[\"n\"],\"mappings\":\"{}\"}}", toks(n, usize::MAX, "AAAAA", "CAACA")),
        "names" => format!(
            "{{\"version\":3,\"sources\":[\"a.js\"],\"names\":[{}],\"mappings\":\"{}\"}}",
            list(n, &|k| format!("\"name{k}\"")),
            toks(n, 100, "AAAAA", "CAACC")
        ),
        "sources-with-contents" => format!(
            "{{\"version\":3,\"sources\":[{}],\"sourcesContent\":[{}],\"names\":[\"f\"],\"mappings\":\"{}\"}}",
            list(n, &|k| format!("\"src/m{}/s{k}.js\"", k % 97)),
            list(n, &|k| if k % 9 == 0 { "null".into() } else { format!("\"function f{k}(){{}}\\nvar v{k};\"") }),
            toks(n, 100, "AAAAA", "CCAAA")
        ),
        "text-and-tokens" => {
            // one embedded text whose length grows with the number of tokens that point into it
            let mut text = String::new();
            for k in 0..n / 4 {
                let _ = write!(text, "function f{k}(a, b) {{ return a + b; }}\\n");
            }
            format!(
                "{{\"version\":3,\"sources\":[\"a.js\",\"b.js\",\"c.js\"],\"sourcesContent\":[null,null,\"{text}\"],\"names\":[\"f\"],\"mappings\":\"{}\"}}",
                toks(n, 100, "AEAAA", "CAACA")
            )
        }
        "index-sections" => format!(
            "{{\"version\":3,\"sections\":[{}]}}",
            list(n, &|k| format!(
                "{{\"offset\":{{\"line\":{k},\"column\":0}},\"map\":{{\"version\":3,\"sources\":[\"s{}.js\"],\"names\":[\"n{}\"],\"mappings\":\"AAAAA,CAAC\"}}}}",
                k % 1000,
                k % 777
            ))
        ),
        "hermes-scopes" => {
            let mut hm = String::new();
            for k in 0..n {
                if k > 0 {
                    hm.push(if k % 3 == 0 { ';' } else { ',' });
                }
                if k == 0 {
                    hm.push_str("AAA");
                } else if k % 200 == 0 {
                    hm.push('C');
                    crate::zoo::vlq(&mut hm, -199);
                    hm.push('C');
                } else {
                    hm.push_str("CCC");
                }
            }
            format!(
                "{{\"version\":3,\"sources\":[\"a.js\"],\"names\":[],\"mappings\":\"{}\",\"x_facebook_sources\":[[{{\"names\":[{}],\"mappings\":\"{hm}\"}}]]}}",
                toks(n / 4 + 1, 50, "AAAA", "CACA"),
                list(200, &|k| format!("\"fn{k}\""))
            )
        }
        // very many tokens at one generated position (what a sort, a dedup or a lookup meets)
        "equal-positions" => format!("{{\"version\":3,\"sources\":[\"a.js\"],\"names\":[],\"mappings\":\"{}\"}}", toks(n, usize::MAX, "AAAA", "AACA")),
        "sourceroot-absolute-sources" => format!(
            "{{\"version\":3,\"sourceRoot\":\"/srv/app/root\",\"sources\":[{}],\"names\":[],\"mappings\":\"{}\"}}",
            list(n, &|k| format!("\"/abs/m{}/s{k}.js\"", k % 89)),
            toks(n, 100, "AAAA", "CCAA")
        ),
        // one source name (or one name) whose length grows with the number of tokens that use it
        "long-source-name-and-tokens" => format!(
            "{{\"version\":3,\"sources\":[\"a.js\",\"{}\"],\"names\":[\"f\"],\"mappings\":\"{}\"}}",
            "dir/".repeat(n / 8),
            toks(n, 100, "ACAAA", "CAACA")
        ),
        "long-name-and-tokens" => format!(
            "{{\"version\":3,\"sources\":[\"a.js\"],\"names\":[\"f\",\"{}\"],\"mappings\":\"{}\"}}",
            "name".repeat(n / 8),
            toks(n, 100, "AAAAC", "CAACA")
        ),
        // a Hermes map whose function map has very many scopes starting at one position, and as
        // many unnamed tokens whose original position is exactly that one; top level and as the
        // only section of an index
        "index-of-hermes-equal-scopes" | "hermes-equal-scopes" => {
            let mut scopes = String::from("AAA");
            for _ in 1..n {
                scopes.push_str(",AAA");
            }
            let map = format!(
                "{{\"version\":3,\"sources\":[\"a.js\"],\"names\":[],\"mappings\":\"{}\",\"x_facebook_sources\":[[{{\"names\":[\"f\"],\"mappings\":\"{scopes}\"}}]]}}",
                toks(n, usize::MAX, "AAAA", "CAAA")
            );
            if shape == "hermes-equal-scopes" {
                map
            } else {
                format!("{{\"version\":3,\"sections\":[{{\"offset\":{{\"line\":0,\"column\":0}},\"map\":{map}}}]}}")
            }
        }
        _ => simcore::harness_error(&format!("unknown shape {shape}")),
    }
}

/// The measured calls on one document; returns (call name, CPU seconds). `sample` fixes the
/// number of point queries, which therefore does not grow with n.
pub fn measure(doc: &str, seed: u64) -> Vec<(&'static str, f64)> {
    let mut out: Vec<(&'static str, f64)> = Vec::new();
    let mut rng = Rng::new(seed);
    macro_rules! timed {
        ($name:expr, $body:expr) => {{
            let t0 = cpu_now();
            let v = $body;
            out.push(($name, cpu_now() - t0));
            v
        }};
    }
    let m = match timed!("decode_slice", sourcemap::decode_slice(doc.as_bytes())) {
        Ok(m) => m,
        Err(e) => simcore::harness_error(&format!("scaling document does not decode: {e}")),
    };
    let positions: Vec<(u32, u32)> = (0..2000).map(|_| (rng.below(1 << 18) as u32, rng.below(1 << 12) as u32)).collect();
    let script = SourceView::from_string("function a(){}\nfunction b(){return a()}\n".repeat(50));
    let regular = |sm: &sourcemap::SourceMap, out: &mut Vec<(&'static str, f64)>| {
        let t0 = cpu_now();
        let mut acc = 0usize;
        for &(l, c) in &positions {
            acc += sm.lookup_token(l, c).map(|t| t.get_src_col() as usize).unwrap_or(0);
        }
        std::hint::black_box(acc);
        out.push(("2000 x lookup_token", cpu_now() - t0));
        let t0 = cpu_now();
        let mut acc = 0usize;
        for t in sm.tokens() {
            acc += t.get_name().map(str::len).unwrap_or(0) + t.get_source().map(str::len).unwrap_or(0);
        }
        std::hint::black_box(acc);
        out.push(("tokens() with name and source", cpu_now() - t0));
        let t0 = cpu_now();
        let mut acc = 0usize;
        for &(l, c) in positions.iter().take(200) {
            acc += sm.get_original_function_name(l, c, "a", &script).map(str::len).unwrap_or(0);
        }
        std::hint::black_box(acc);
        out.push(("200 x get_original_function_name", cpu_now() - t0));
        let t0 = cpu_now();
        let mut acc = 0usize;
        for i in 0..sm.get_source_count() {
            if let Some(v) = sm.get_source_view(i) {
                acc += v.get_line(0).map(str::len).unwrap_or(0);
            }
        }
        std::hint::black_box(acc);
        out.push(("get_source_view for every source", cpu_now() - t0));
        let t0 = cpu_now();
        let mut buf = Vec::new();
        let _ = sm.to_writer(&mut buf);
        out.push(("to_writer", cpu_now() - t0));
        for (name, opts) in [
            ("rewrite (defaults)", RewriteOptions::default()),
            ("rewrite (no names, no contents)", RewriteOptions { with_names: false, with_source_contents: false, ..Default::default() }),
            ("rewrite (strip ~)", RewriteOptions { strip_prefixes: &["~"], ..Default::default() }),
        ] {
            let t0 = cpu_now();
            let r = sm.clone().rewrite(&opts);
            out.push((name, cpu_now() - t0));
            drop(r);
        }
        let t0 = cpu_now();
        let c = sm.clone();
        out.push(("clone", cpu_now() - t0));
        drop(c);
    };
    match &m {
        DecodedMap::Regular(sm) => regular(sm, &mut out),
        DecodedMap::Hermes(smh) => {
            regular(smh, &mut out);
            let t0 = cpu_now();
            let mut acc = 0usize;
            for &(_, c) in &positions {
                acc += smh.get_original_function_name(c * 61).map(str::len).unwrap_or(0);
            }
            std::hint::black_box(acc);
            out.push(("Hermes: 2000 x get_original_function_name", cpu_now() - t0));
            let t0 = cpu_now();
            let r = smh.clone().rewrite(&RewriteOptions::default());
            out.push(("Hermes rewrite", cpu_now() - t0));
            drop(r);
            let t0 = cpu_now();
            let mut buf = Vec::new();
            let _ = smh.to_writer(&mut buf);
            out.push(("Hermes to_writer", cpu_now() - t0));
        }
        DecodedMap::Index(smi) => {
            let t0 = cpu_now();
            let mut acc = 0usize;
            for &(l, c) in positions.iter().take(200) {
                acc += smi.lookup_token(l, c).map(|t| t.get_src_col() as usize).unwrap_or(0);
            }
            std::hint::black_box(acc);
            out.push(("index: 200 x lookup_token", cpu_now() - t0));
            let t0 = cpu_now();
            let mut buf = Vec::new();
            let _ = smi.to_writer(&mut buf);
            out.push(("index to_writer", cpu_now() - t0));
            let t0 = cpu_now();
            let flat = smi.flatten();
            out.push(("flatten", cpu_now() - t0));
            let t0 = cpu_now();
            let r = smi.clone().flatten_and_rewrite(&RewriteOptions::default());
            out.push(("flatten_and_rewrite", cpu_now() - t0));
            drop(r);
            if let Ok(flat) = flat {
                regular(&flat, &mut out);
            }
        }
    }
    let t0 = cpu_now();
    let s = format!("{m:?}");
    std::hint::black_box(s.len());
    out.push(("Debug", cpu_now() - t0));
    let t0 = cpu_now();
    drop(m);
    out.push(("drop", cpu_now() - t0));
    out
}

/// Child entry: `sim_io C05 --scale-child <shape> <n> <seed>` prints one line per call.
pub fn child(shape: &str, n: usize, seed: u64) -> i32 {
    let doc = document(shape, n);
    // the better of two measurements (the first also warms the allocator)
    let a = measure(&doc, seed);
    let b = measure(&doc, seed);
    println!("SCALE-DOC bytes={}", doc.len());
    for ((name, ta), (_, tb)) in a.iter().zip(b.iter()) {
        println!("SCALE {:.6} {}", ta.min(*tb), name);
    }
    0
}

// ---------------------------------------------------------------- stage driver (parent)

use serde_json::json;
use simcore::{harness_error, Args, Tier};

const PROP: &str = "C05";

/// One shape at one size in a child process: Ok(call -> seconds) or Err(how it ended).
fn run_child(shape: &str, n: usize, seed: u64) -> Result<Vec<(String, f64)>, String> {
    let exe = std::env::current_exe().unwrap_or_else(|e| harness_error(&format!("current_exe: {e}")));
    let mut child = std::process::Command::new(exe)
        .args([PROP, "--scale-child", shape, "--n", &n.to_string(), "--seed", &seed.to_string()])
        .stdout(std::process::Stdio::piped())
        .stderr(std::process::Stdio::null())
        .spawn()
        .unwrap_or_else(|e| harness_error(&format!("spawn: {e}")));
    let mut watch = crate::c05::Watch::new(child.id());
    // drain stdout on a thread so that the child never blocks on a full pipe
    let mut so = child.stdout.take().unwrap();
    let reader = std::thread::spawn(move || {
        let mut s = String::new();
        let _ = std::io::Read::read_to_string(&mut so, &mut s);
        s
    });
    loop {
        match child.try_wait() {
            Ok(Some(st)) => {
                let out = reader.join().unwrap_or_default();
                if !st.success() {
                    use std::os::unix::process::ExitStatusExt;
                    return Err(match st.signal() {
                        Some(sig) => format!("died with signal {sig}"),
                        None => format!("exit {}", st.code().unwrap_or(-1)),
                    });
                }
                let mut v = Vec::new();
                for l in out.lines() {
                    if let Some(rest) = l.strip_prefix("SCALE ") {
                        let (t, name) = rest.split_once(' ').unwrap_or(("0", rest));
                        v.push((name.to_string(), t.parse::<f64>().unwrap_or(0.0)));
                    }
                }
                if v.is_empty() {
                    return Err("no measurements".into());
                }
                return Ok(v);
            }
            Ok(None) => {
                if watch.stalled(child.id(), CPU_CAP) {
                    let _ = child.kill();
                    let _ = child.wait();
                    return Err(format!("no result within {CPU_CAP} s of CPU time"));
                }
                std::thread::sleep(std::time::Duration::from_millis(10));
            }
            Err(e) => harness_error(&format!("wait: {e}")),
        }
    }
}

/// (signature, detail) of every call of the shape whose time is out of proportion between n and 4n.
fn judge(shape: &str, n: usize, small: &Result<Vec<(String, f64)>, String>, large: &Result<Vec<(String, f64)>, String>) -> Vec<(String, String, f64, f64)> {
    let mut v = Vec::new();
    match (small, large) {
        (Ok(a), Ok(b)) => {
            for (name, tb) in b {
                let ta = a.iter().find(|(x, _)| x == name).map(|x| x.1).unwrap_or(0.0);
                if *tb > ABS_FLOOR && *tb / ta.max(0.001) > RATIO_LIMIT {
                    v.push((
                        format!("superlinear:{shape}:{}", name.replace(' ', "-")),
                        format!("{name} took {ta:.4} s of CPU time on the {shape} document of size {n} and {tb:.4} s on the same shape at size {} ({}x for 4x the document; linear work stays near 4x)", n * 4, (tb / ta.max(0.001)).round()),
                        ta,
                        *tb,
                    ));
                }
            }
        }
        (Ok(_), Err(how)) => v.push((format!("superlinear:{shape}:no-result"), format!("the {shape} document of size {n} was processed, the same shape at size {} was not: {how}", n * 4), 0.0, f64::INFINITY)),
        (Err(how), _) => v.push((format!("superlinear:{shape}:no-result"), format!("the {shape} document of size {n} was not processed: {how}"), 0.0, f64::INFINITY)),
    }
    v
}

pub fn stage(args: &Args) -> i32 {
    let tier = simcore::tier_from(args);
    let base_seed = args.num("--seed").unwrap_or_else(simcore::seed_from_env);
    let workers = args.num("--workers").map(|w| w as usize).unwrap_or_else(simcore::par::workers_from_env).max(1);
    // sizes from the seed: n0 in 16000..24000, and n0/2 and 2 n0 as well in the thorough tier
    let n0 = 16_000 + (simcore::rng::mix(base_seed, simcore::rng::domain("C05/scale"), 0) % 8000) as usize;
    let sizes: Vec<usize> = match tier {
        Tier::Quick => vec![n0],
        Tier::Thorough => vec![n0 / 2, n0, n0 * 2],
    };
    println!("sim_io property={PROP} tier={} VERIF_SEED={base_seed} stage=time-proportionality shapes={} sizes={sizes:?} (each against 4x)", tier.name(), SHAPES.len());
    let t0 = std::time::Instant::now();
    // jobs: (shape, n) for n in sizes and 4n
    let mut jobs: Vec<(&'static str, usize)> = Vec::new();
    for &n in &sizes {
        for shape in SHAPES {
            jobs.push((shape, n));
            jobs.push((shape, n * 4));
        }
    }
    let jobs = std::sync::Arc::new(std::sync::Mutex::new(jobs.into_iter().enumerate().collect::<Vec<_>>()));
    let results = std::sync::Arc::new(std::sync::Mutex::new(std::collections::BTreeMap::new()));
    let mut handles = Vec::new();
    for _ in 0..workers.min(16) {
        let jobs = jobs.clone();
        let results = results.clone();
        handles.push(std::thread::spawn(move || loop {
            let job = jobs.lock().unwrap().pop();
            let Some((_, (shape, n))) = job else { return };
            let r = run_child(shape, n, base_seed);
            results.lock().unwrap().insert((shape, n), r);
        }));
    }
    for h in handles {
        let _ = h.join();
    }
    let results = results.lock().unwrap();
    let mut table = simcore::ViolationTable::default();
    let mut calls = 0u64;
    let mut max_ratio = 0.0f64;
    let mut max_large = 0.0f64;
    let mut rows = Vec::new();
    let mut found: Vec<(String, String, &'static str, usize, f64, f64)> = Vec::new();
    for &n in &sizes {
        for shape in SHAPES {
            let small = &results[&(shape, n)];
            let large = &results[&(shape, n * 4)];
            if let (Ok(a), Ok(b)) = (small, large) {
                for (name, tb) in b {
                    calls += 1;
                    let ta = a.iter().find(|(x, _)| x == name).map(|x| x.1).unwrap_or(0.0);
                    if *tb > 0.02 {
                        max_ratio = max_ratio.max(tb / ta.max(0.001));
                    }
                    max_large = max_large.max(*tb);
                    rows.push(json!({"shape": shape, "n": n, "call": name, "cpu_s_at_n": ta, "cpu_s_at_4n": tb}));
                }
            }
            let first = judge(shape, n, small, large);
            if !first.is_empty() {
                // a hit is measured again, with nothing else of this stage running, before it is believed
                let small2 = run_child(shape, n, base_seed);
                let large2 = run_child(shape, n * 4, base_seed);
                let second = judge(shape, n, &small2, &large2);
                for (sig, detail, ta, tb) in second {
                    if first.iter().any(|f| f.0 == sig) {
                        table.add(sig.clone(), n as u64, detail.clone());
                        found.push((sig, detail, shape, n, ta, tb));
                    }
                }
            }
        }
    }
    let findings = simcore::load_findings();
    let (known, new) = table.classify(PROP, &findings);
    for l in &known {
        println!("{l}");
    }
    let mut reported = Vec::new();
    for (sig, _idx, _cnt, detail) in new.iter().take(8) {
        let (_, _, shape, n, ta, tb) = found.iter().find(|f| &f.0 == sig).unwrap();
        let call = sig.rsplit(':').next().unwrap_or("call").chars().filter(|c| c.is_ascii_alphanumeric() || *c == '-' || *c == '_').collect::<String>();
        let path = format!("{}/replays/{PROP}-scale-{}-{}-{}-{}.json", simcore::verif_dir(), base_seed, shape, n, call);
        simcore::write_json_atomic(
            &path,
            &json!({"property": PROP, "engine": "sim_io/c05 time-proportionality monitor (CPU time of one call on one document shape at n and 4n)", "base_seed": base_seed,
                    "shape": shape, "n": n, "signature": sig, "detail": detail, "cpu_s_at_n": ta, "cpu_s_at_4n": if tb.is_finite() { json!(tb) } else { json!(null) },
                    "rule": format!("time at 4n above {ABS_FLOOR} s and more than {RATIO_LIMIT} times the time at n (floor 1 ms), or no result within {CPU_CAP} s of CPU time")}),
        );
        println!("violation: signature={sig} :: {detail}");
        println!("VIOLATION property={PROP} replay={path}");
        reported.push(json!({"signature": sig, "replay": path, "detail": detail}));
    }
    let wall = t0.elapsed().as_secs_f64();
    let ev = json!({"property_id": PROP, "tier": tier.name(), "seed": base_seed, "wall_s": wall, "violations": reported.len(),
        "coverage": {"shapes": SHAPES, "sizes": sizes, "calls_compared": calls, "largest_ratio_among_calls_above_20ms": max_ratio, "longest_call_at_4n_cpu_s": max_large,
                     "rule": format!("a call is reported when its CPU time at 4n is above {ABS_FLOOR} s and more than {RATIO_LIMIT} times its time at n (floor 1 ms), or when a shape gives no result within {CPU_CAP} s of CPU time"),
                     "known_findings_hit": known.len(), "reported": reported, "measurements": rows}});
    simcore::write_json_atomic(&format!("{}/sim/target/{PROP}-scale-stage.json", simcore::verif_dir()), &ev);
    println!("scale: shapes={} sizes={sizes:?} calls_compared={calls} largest_ratio={max_ratio:.1} longest_call_at_4n={max_large:.3}s violations={} wall={wall:.1}s", SHAPES.len(), reported.len());
    if reported.is_empty() {
        0
    } else {
        1
    }
}

pub fn replay(path: &str) -> i32 {
    let v = simcore::read_json(path);
    let shape = v["shape"].as_str().unwrap_or("").to_string();
    let n = v["n"].as_u64().unwrap_or(0) as usize;
    let seed = v["base_seed"].as_u64().unwrap_or(1);
    let want = v["signature"].as_str().unwrap_or("").to_string();
    let Some(shape) = SHAPES.iter().find(|s| **s == shape) else { harness_error("replay file: unknown shape") };
    let small = run_child(shape, n, seed);
    let large = run_child(shape, n * 4, seed);
    let got = judge(shape, n, &small, &large);
    for (sig, detail, _, _) in &got {
        println!("replayed: signature={sig}\n{detail}");
    }
    if got.iter().any(|g| g.0 == want) {
        println!("VIOLATION property={PROP} replay={path}");
        1
    } else if got.is_empty() {
        println!("replay of {path}: property held (recorded signature {want}); the tree no longer fails this measurement");
        0
    } else {
        println!("HARNESS-ERROR: replay diverged (recorded {want})");
        2
    }
}
