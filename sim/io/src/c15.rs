//! C15 — single-client configuration of the SourceView simulator: seeded call histories on the
//! lazily indexed view (shipped std build, guard off), checked call by call against `RefView`.

use serde_json::{json, Value};
use simcore::findings::Findings;
use simcore::hash::{KeySet, H64};
use simcore::panics;
use simcore::refview::{apply, Call, RefView, Res, ViewApi};
use simcore::rng::{self, Rng};
use simcore::{harness_error, Args, Tier, ViolationTable};
use sourcemap::SourceView;
use std::collections::BTreeMap;
use std::panic::{catch_unwind, AssertUnwindSafe};
use std::sync::atomic::AtomicBool;

const PROP: &str = "C15";

pub struct RealView(pub SourceView);

impl ViewApi for RealView {
    fn new_view(text: &str) -> Self {
        RealView(SourceView::new(text.into()))
    }
    fn clone_view(&self) -> Self {
        RealView(self.0.clone())
    }
    fn get_line(&self, idx: u32) -> Option<&str> {
        self.0.get_line(idx)
    }
    fn line_count(&self) -> usize {
        self.0.line_count()
    }
    fn lines_collect(&self, take: Option<u32>) -> Vec<String> {
        match take {
            None => self.0.lines().map(simcore::refview::own).collect(),
            Some(k) => self.0.lines().take(k as usize).map(simcore::refview::own).collect(),
        }
    }
    fn get_line_slice(&self, line: u32, col: u32, span: u32) -> Option<&str> {
        self.0.get_line_slice(line, col, span)
    }
    fn source(&self) -> &str {
        self.0.source()
    }
}

/// One step of a history. Views live in slots; `Clone` pushes a clone of the current view and
/// makes it current; `Switch(k)` makes slot k (mod number of slots) current; `Fresh` pushes a
/// new view over the same text (built through `from_string` every other time).
#[derive(Clone, Debug, PartialEq, Eq)]
pub enum Op {
    Call(Call),
    Clone,
    Switch(u32),
    Fresh,
    /// open a `lines()` iterator on the current view and keep it alive
    IterOpen,
    /// advance live iterator k (mod number of live iterators), compare with the model
    IterNext(u32),
    /// drop live iterator k
    IterDrop(u32),
    /// `get_line(i)` on the current view, keeping the returned `&str` borrowed until the end of
    /// the history, where it is validated again (after the index has grown, views were cloned...)
    HoldLine(u32),
}

impl Op {
    fn to_json(&self) -> Value {
        match self {
            Op::Call(c) => c.to_json(),
            Op::Clone => json!({"op": "clone"}),
            Op::Switch(k) => json!({"op": "switch", "slot": k}),
            Op::Fresh => json!({"op": "fresh"}),
            Op::IterOpen => json!({"op": "iter_open"}),
            Op::IterNext(k) => json!({"op": "iter_next", "slot": k}),
            Op::IterDrop(k) => json!({"op": "iter_drop", "slot": k}),
            Op::HoldLine(i) => json!({"op": "hold_line", "idx": i}),
        }
    }
    fn from_json(v: &Value) -> Option<Op> {
        let u = |k: &str| v.get(k).and_then(|x| x.as_u64()).map(|x| x as u32);
        match v.get("op")?.as_str()? {
            "clone" => Some(Op::Clone),
            "switch" => Some(Op::Switch(u("slot")?)),
            "fresh" => Some(Op::Fresh),
            "iter_open" => Some(Op::IterOpen),
            "iter_next" => Some(Op::IterNext(u("slot")?)),
            "iter_drop" => Some(Op::IterDrop(u("slot")?)),
            "hold_line" => Some(Op::HoldLine(u("idx")?)),
            _ => Call::from_json(v).map(Op::Call),
        }
    }
    fn hash_into(&self, h: &mut H64) {
        match self {
            Op::Call(c) => c.hash_into(h),
            Op::Clone => h.u64(100),
            Op::Switch(k) => {
                h.u64(101);
                h.u64(*k as u64)
            }
            Op::Fresh => h.u64(102),
            Op::IterOpen => h.u64(103),
            Op::IterNext(k) => {
                h.u64(104);
                h.u64(*k as u64)
            }
            Op::IterDrop(k) => {
                h.u64(105);
                h.u64(*k as u64)
            }
            Op::HoldLine(i) => {
                h.u64(106);
                h.u64(*i as u64)
            }
        }
    }
}

#[derive(Clone, Debug)]
pub struct History {
    pub text: String,
    pub ops: Vec<Op>,
}

// the first eight are the working alphabet; the rest are characters that *other* conventions treat
// as line breaks or strip (U+2028/2029, NEL, VT, FF), plus tab, NUL and U+FEFF: none of them is a
// terminator here
const ALPHA: [&str; 16] = ["a", "é", "€", "👌", " ", "\n", "\r", "\r\n", "\u{2028}", "\u{2029}", "\u{85}", "\x0b", "\x0c", "\t", "\0", "\u{feff}"];

fn gen_text(rng: &mut Rng) -> String {
    // special shapes first (each rare)
    match rng.below(1000) {
        0..=9 => {
            // long lines: few terminators, hundreds to tens of thousands of pieces per line, with
            // astral characters planted at units 255, 4095 and 65535 where they fit
            let lines = 1 + rng.below(3);
            let mut t = String::new();
            for l in 0..lines {
                let len = *rng.pick(&[300usize, 1000, 5000, 70_000]);
                let filler = *rng.pick(&["a", "a", "é", "ab "]);
                let mut units = 0usize;
                while units < len {
                    if units == 255 || units == 4095 || units == 65_535 || rng.chance(1, 997) {
                        t.push('👌');
                        units += 2;
                    } else {
                        t.push_str(filler);
                        units += filler.chars().count();
                    }
                }
                if l + 1 < lines {
                    t.push_str(*rng.pick(&["\n", "\r\n", "\r"]));
                }
            }
            return t;
        }
        10..=19 => {
            // line counts equal to a power of two (+-1): the sizes internal batches are made of;
            // a \r\n planted across a power-of-two byte offset now and then
            let k = 6 + rng.below(7) as u32;
            let lines = ((1i64 << k) + *rng.pick(&[-1i64, 0, 1])) as usize;
            let mut t = String::new();
            for i in 0..lines {
                t.push_str(*rng.pick(&["", "a", "bb"]));
                if i + 1 < lines {
                    if t.len() % 64 == 63 && rng.chance(1, 2) {
                        t.push_str("\r\n");
                    } else {
                        t.push_str(*rng.pick(&["\n", "\n", "\r\n", "\r"]));
                    }
                }
            }
            return t;
        }
        21..=32 => {
            // lines whose byte length sits right at a block boundary (B*j - 2 .. B*j + 1 for block
            // sizes 16..8192), ended by \r\n, \r or \n: a scanner that works block-wise from the
            // start of each line meets the terminator (or the \r\n pair) across two blocks
            let mut t = String::new();
            let lines = 1 + rng.below(4);
            for l in 0..lines {
                let b = *rng.pick(&[16usize, 32, 64, 128, 256, 512, 1024, 4096, 8192]);
                let j = 1 + rng.below_usize(3);
                let len = (b * j + 1).saturating_sub(rng.below_usize(4));
                let mut bytes = 0usize;
                while bytes < len {
                    if len - bytes >= 4 && rng.chance(1, 50) {
                        t.push('👌');
                        bytes += 4;
                    } else if len - bytes >= 2 && rng.chance(1, 30) {
                        t.push('é');
                        bytes += 2;
                    } else {
                        t.push('a');
                        bytes += 1;
                    }
                }
                if l + 1 < lines || rng.chance(1, 2) {
                    t.push_str(*rng.pick(&["\r\n", "\r\n", "\r", "\n"]));
                }
            }
            return t;
        }
        20 => {
            // huge: more than 65536 lines / bytes
            let unit = *rng.pick(&["\n", "a\n", "\r\n"]);
            return unit.repeat(rng.range_usize(66_000, 71_000));
        }
        _ => {}
    }
    // mostly tiny; 2 % long (hundreds of pieces) and 0.3 % very long (thousands): an
    // implementation may index in batches (64, 256, 1024 lines ...), and a text shorter than the
    // batch never leaves the first one
    let len = match rng.weighted(&[100, 400, 350, 127, 20, 3]) {
        0 => 0,
        1 => rng.range_usize(1, 5),
        2 => rng.range_usize(4, 12),
        3 => rng.range_usize(10, 24),
        4 => rng.range_usize(150, 900),
        _ => rng.range_usize(2500, 6000),
    };
    // per-text terminator density (swarm): sparse, medium, dense
    let term_w = *rng.pick(&[2u32, 6, 14]);
    let astral_w = *rng.pick(&[1u32, 4, 10]);
    let odd_w = *rng.pick(&[0u32, 0, 1, 3]);
    let weights = [10, 4, 3, astral_w, 2, term_w, term_w, term_w, odd_w, odd_w, odd_w, odd_w, odd_w, odd_w, odd_w, odd_w];
    let mut t = String::new();
    for _ in 0..len {
        t.push_str(ALPHA[rng.weighted(&weights)]);
    }
    // bias: terminators at the very start / very end / doubled
    if rng.chance(1, 6) {
        t.insert_str(0, *rng.pick(&["\n", "\r", "\r\n", "\n\n", "\r\r"]));
    }
    if rng.chance(1, 5) {
        t.push_str(*rng.pick(&["\n", "\r", "\r\n", "\n\n", "\r\r\n", "\n\r"]));
    }
    t
}

const BIG: [u32; 4] = [1 << 31, u32::MAX - 1, u32::MAX, (1 << 31) - 1];

fn gen_call(rng: &mut Rng, model: &RefView) -> Call {
    let n = model.line_count() as u32;
    let line_idx = |rng: &mut Rng| -> u32 {
        match rng.weighted(&[70, 12, 10, 8]) {
            0 => rng.below(n as u64) as u32,
            1 => n,
            2 => n + 1 + rng.below(3) as u32,
            _ => *rng.pick(&BIG),
        }
    };
    match rng.weighted(&[34, 12, 6, 6, 38, 4]) {
        0 => Call::GetLine(line_idx(rng)),
        1 => Call::LineCount,
        2 => Call::Lines,
        3 => Call::LinesTake(rng.below(n as u64 + 2) as u32),
        4 => {
            let l = line_idx(rng);
            let units = model.line_units(l).unwrap_or(3) as u32;
            let small = |rng: &mut Rng| {
                if units > 64 && rng.chance(1, 3) {
                    // inside a long line: around powers of two and around the planted astral
                    // characters, where cached cursors and block scanners change regime
                    let base = *rng.pick(&[15u32, 16, 63, 64, 254, 255, 256, 4094, 4095, 4096, 65_534, 65_535, 65_536]);
                    (base + rng.below(3) as u32).min(units + 2)
                } else {
                    rng.below(units as u64 + 3) as u32
                }
            };
            let c = if rng.chance(1, 12) { *rng.pick(&BIG) } else { small(rng) };
            let s = if rng.chance(1, 12) { *rng.pick(&BIG) } else { small(rng) };
            Call::GetLineSlice(l, c, s)
        }
        _ => Call::Source,
    }
}

pub fn gen(rng: &mut Rng) -> History {
    let text = gen_text(rng);
    let model = RefView::new(&text);
    let n = model.line_count() as u32;
    let nops = 1 + rng.weighted(&[8, 10, 12, 12, 10, 10, 8, 8, 6, 6, 5, 5]);
    let mut ops = Vec::with_capacity(nops);
    // order bias named by the property
    match rng.below(8) {
        0 => ops.push(Op::Call(Call::GetLine(n.saturating_sub(1)))), // a late line first
        1 => {
            ops.push(Op::Call(Call::GetLine(n))); // a missing line before a present one
            ops.push(Op::Call(Call::GetLine(rng.below(n as u64) as u32)));
        }
        2 => ops.push(Op::Call(Call::LineCount)), // counting before
        _ => {}
    }
    while ops.len() < nops {
        let op = match rng.weighted(&[78, 6, 5, 3, 2, 3, 1, 2]) {
            0 => Op::Call(gen_call(rng, &model)),
            1 => Op::Clone,
            2 => Op::Switch(rng.below(4) as u32),
            3 => Op::Fresh,
            4 => Op::IterOpen,
            5 => Op::IterNext(rng.below(3) as u32),
            6 => Op::IterDrop(rng.below(3) as u32),
            _ => Op::HoldLine(rng.below(n as u64 + 1) as u32),
        };
        ops.push(op);
    }
    // access patterns that single random requests never form: an ascending or descending run of
    // lines, or one line sliced at rising and falling columns (memo / cursor caches live here)
    if rng.chance(1, 12) {
        let start = rng.below(n as u64) as u32;
        let len = rng.range(8, 40) as u32;
        match rng.below(3) {
            0 => {
                for k in 0..len {
                    ops.push(Op::Call(Call::GetLine(start.saturating_add(k))));
                }
            }
            1 => {
                for k in 0..len {
                    ops.push(Op::Call(Call::GetLine(start.saturating_sub(k))));
                }
            }
            _ => {
                let units = model.line_units(start).unwrap_or(0) as u32;
                let mut c = rng.below(units as u64 + 1) as u32;
                for k in 0..len {
                    ops.push(Op::Call(Call::GetLineSlice(start, c, 1 + k % 3)));
                    c = if k % 5 == 4 { c.saturating_sub(3) } else { (c + 1 + rng.below(2) as u32).min(units + 1) };
                }
            }
        }
    }
    if rng.chance(1, 4) {
        ops.push(Op::Call(Call::LineCount)); // counting after
    }
    History { text, ops }
}

impl History {
    pub fn to_json(&self) -> Value {
        json!({"text": self.text, "ops": self.ops.iter().map(Op::to_json).collect::<Vec<_>>()})
    }
    pub fn from_json(v: &Value) -> Option<History> {
        Some(History {
            text: v.get("text")?.as_str()?.to_string(),
            ops: v.get("ops")?.as_array()?.iter().map(Op::from_json).collect::<Option<Vec<_>>>()?,
        })
    }
    pub fn hash(&self) -> u64 {
        let mut h = H64::new();
        h.str(&self.text);
        for o in &self.ops {
            o.hash_into(&mut h);
        }
        h.finish()
    }
}

/// Facts about one executed history, all derived from the model (not from the code under test).
#[derive(Default)]
pub struct Facts {
    pub calls: u64,
    pub partly_indexed_calls: u64,
    pub cache_states: Vec<(u32, u32)>,
    pub classes: Vec<&'static str>,
}

pub struct Exec {
    pub verdict: Option<(String, String)>,
    pub event_hash: u64,
    pub facts: Facts,
    pub results: Vec<Option<Res>>,
}

fn slice_classes(model: &RefView, l: u32, c: u32, n: u32, out: &mut Vec<&'static str>) {
    let hi = c as u64 + n as u64;
    match model.line_units(l) {
        None => out.push("slice:line-out-of-range"),
        Some(units) => {
            if hi > u32::MAX as u64 {
                out.push("slice:col+span>u32");
            }
            if n == 0 {
                out.push("slice:span0");
            }
            if model.is_mid_pair(l, c as u64) {
                out.push("slice:start-mid-pair");
            }
            if n > 0 && model.is_mid_pair(l, hi) {
                out.push("slice:end-mid-pair");
            }
            if hi == units {
                out.push("slice:ends-at-line-end");
            } else if hi > units {
                out.push("slice:beyond-line-end");
            } else {
                out.push("slice:inside");
            }
        }
    }
}

/// Views live behind stable heap pointers for the length of a history, so that iterators and
/// borrowed lines can outlive later pushes to the slot table; everything borrowed is dropped
/// before the views are freed at the end of `execute`.
struct Arena {
    ptrs: Vec<*mut RealView>,
}

impl Arena {
    fn push(&mut self, v: RealView) -> usize {
        self.ptrs.push(Box::into_raw(Box::new(v)));
        self.ptrs.len() - 1
    }
    fn get(&self, i: usize) -> &'static RealView {
        // SAFETY: the box is freed only in `Drop`, after every borrower has been dropped
        unsafe { &*self.ptrs[i] }
    }
}

impl Drop for Arena {
    fn drop(&mut self) {
        for p in self.ptrs.drain(..) {
            // SAFETY: created by Box::into_raw in `push`, freed once
            unsafe { drop(Box::from_raw(p)) };
        }
    }
}

struct LiveIter {
    it: Box<dyn Iterator<Item = &'static str>>,
    cursor: u32,
    slot: usize,
}

pub fn execute(h: &History) -> Exec {
    let model = RefView::new(&h.text);
    let n = model.line_count() as u32;
    // one Arc<str> kept by the caller and shared by every second fresh view
    let shared: std::sync::Arc<str> = h.text.as_str().into();
    let mut arena = Arena { ptrs: Vec::new() };
    arena.push(RealView::new_view(&h.text));
    // model-inferred number of cached lines per slot
    let mut cached: Vec<u32> = vec![0];
    let mut cur = 0usize;
    let mut fresh_count = 0u32;
    let mut eh = H64::new();
    let mut facts = Facts::default();
    let mut results = Vec::with_capacity(h.ops.len());
    let mut verdict: Option<(String, String)> = None;
    let mut iters: Vec<LiveIter> = Vec::new();
    let mut held: Vec<(u32, usize, Option<&'static str>)> = Vec::new();
    let take_panic = || panics::take().unwrap_or(panics::PanicInfo { file: "<unknown>".into(), line: 0, msg: "?".into() });
    'ops: for (k, op) in h.ops.iter().enumerate() {
        match op {
            Op::Clone => {
                let v = arena.get(cur).clone_view();
                cur = arena.push(v);
                cached.push(0);
                results.push(None);
            }
            Op::Switch(s) => {
                cur = *s as usize % arena.ptrs.len();
                results.push(None);
            }
            Op::Fresh => {
                fresh_count += 1;
                let v = match fresh_count % 3 {
                    0 => RealView(SourceView::from_string(h.text.clone())),
                    1 => RealView(SourceView::new(shared.clone())),
                    _ => RealView::new_view(&h.text),
                };
                cur = arena.push(v);
                cached.push(0);
                results.push(None);
            }
            Op::IterOpen => {
                if iters.len() < 4 {
                    let view = arena.get(cur);
                    iters.push(LiveIter { it: Box::new(view.0.lines()), cursor: 0, slot: cur });
                }
                results.push(None);
            }
            Op::IterDrop(j) => {
                if !iters.is_empty() {
                    let j = *j as usize % iters.len();
                    iters.remove(j);
                }
                results.push(None);
            }
            Op::IterNext(j) => {
                if iters.is_empty() {
                    results.push(None);
                    continue;
                }
                let j = *j as usize % iters.len();
                facts.calls += 1;
                let li = &mut iters[j];
                let before = cached[li.slot];
                if before > 0 && before < n {
                    facts.partly_indexed_calls += 1;
                }
                panics::clear();
                let got = catch_unwind(AssertUnwindSafe(|| li.it.next().map(simcore::refview::own)));
                let want = model.line(li.cursor).map(str::to_owned);
                match got {
                    Ok(g) => {
                        let res = Res::Line(g.clone());
                        res.hash_into(&mut eh);
                        if g != want {
                            let sig = format!("mismatch:lines_next:{}-for-{}", if g.is_some() { "Some" } else { "None" }, if want.is_some() { "Some" } else { "None" });
                            let detail = format!(
                                "op #{k}: live lines() iterator on view slot {} at position {} returned {:?}; the text's definition gives {:?}; text {:?}",
                                li.slot, li.cursor, g, want, h.text
                            );
                            results.push(Some(res));
                            verdict = Some((sig, detail));
                            break 'ops;
                        }
                        if want.is_some() {
                            li.cursor += 1;
                            cached[li.slot] = cached[li.slot].max(li.cursor.min(n));
                        } else {
                            cached[li.slot] = n;
                        }
                        results.push(Some(res));
                    }
                    Err(_) => {
                        let p = take_panic();
                        eh.str(&p.msg);
                        verdict = Some((panics::signature(&p), format!("op #{k}: live lines() iterator panicked: {} at {}:{}; text {:?}", p.msg, p.file, p.line, h.text)));
                        results.push(None);
                        break 'ops;
                    }
                }
            }
            Op::HoldLine(i) => {
                facts.calls += 1;
                let view = arena.get(cur);
                panics::clear();
                let got = catch_unwind(AssertUnwindSafe(|| view.0.get_line(*i)));
                match got {
                    Ok(g) => {
                        let want = model.line(*i).map(str::to_owned);
                        let owned = g.map(simcore::refview::own);
                        let res = Res::Line(owned.clone());
                        res.hash_into(&mut eh);
                        cached[cur] = cached[cur].max((*i as u64 + 1).min(n as u64) as u32);
                        if owned != want {
                            let sig = mismatch_sig(&model, &Call::GetLine(*i), &res, &Res::Line(want.clone()));
                            verdict = Some((sig, format!("op #{k} HoldLine({i}) on view slot {cur} returned {:?}; the text's definition gives {:?}; text {:?}", owned, want, h.text)));
                            results.push(Some(res));
                            break 'ops;
                        }
                        held.push((*i, cur, g));
                        results.push(Some(res));
                    }
                    Err(_) => {
                        let p = take_panic();
                        eh.str(&p.msg);
                        verdict = Some((panics::signature(&p), format!("op #{k} HoldLine({i}) panicked: {} at {}:{}; text {:?}", p.msg, p.file, p.line, h.text)));
                        results.push(None);
                        break 'ops;
                    }
                }
            }
            Op::Call(call) => {
                facts.calls += 1;
                let before = cached[cur];
                if before > 0 && before < n {
                    facts.partly_indexed_calls += 1;
                }
                facts.cache_states.push((n, before));
                // what the call needs indexed, by the model
                let need = match call {
                    Call::GetLine(i) | Call::GetLineSlice(i, _, _) => (*i as u64 + 1).min(n as u64) as u32,
                    Call::LineCount | Call::Lines => n,
                    Call::LinesTake(k) => (*k).min(n),
                    Call::Source | Call::CloneGetLine(_) => 0,
                };
                cached[cur] = cached[cur].max(need);
                if let Call::GetLineSlice(l, c, s) = call {
                    slice_classes(&model, *l, *c, *s, &mut facts.classes);
                }
                panics::clear();
                let view = arena.get(cur);
                let got = catch_unwind(AssertUnwindSafe(|| apply(view, call)));
                let want = model.answer(call);
                match got {
                    Ok(res) => {
                        res.hash_into(&mut eh);
                        if res != want {
                            let sig = mismatch_sig(&model, call, &res, &want);
                            let detail = format!(
                                "op #{k} {:?} on view slot {cur} (model: {before} of {n} lines cached) returned {:?}; the text's definition gives {:?}; text {:?}",
                                call,
                                res,
                                want,
                                if h.text.len() > 300 { format!("{}... ({} bytes)", h.text.chars().take(120).collect::<String>(), h.text.len()) } else { h.text.clone() }
                            );
                            results.push(Some(res));
                            verdict = Some((sig, detail));
                            break 'ops;
                        }
                        results.push(Some(res));
                    }
                    Err(_) => {
                        let p = take_panic();
                        eh.str(&p.msg);
                        let sig = panics::signature(&p);
                        let detail = format!("op #{k} {:?} panicked: {} at {}:{}; text of {} bytes", call, p.msg, p.file, p.line, h.text.len());
                        results.push(None);
                        verdict = Some((sig, detail));
                        break 'ops;
                    }
                }
            }
        }
    }
    // borrowed lines must still say what they said (the index has grown, views were cloned and
    // created since); then everything borrowed goes before the views do
    if verdict.is_none() {
        for (i, slot, s) in &held {
            let now = s.map(simcore::refview::own);
            let want = model.line(*i).map(str::to_owned);
            if now != want {
                verdict = Some((
                    "held-line-changed".to_string(),
                    format!("the &str returned earlier by get_line({i}) on view slot {slot} now reads {:?}; the text's definition gives {:?}", now, want),
                ));
                break;
            }
        }
    }
    eh.u64(held.len() as u64);
    drop(held);
    drop(iters);
    drop(arena);
    Exec { verdict, event_hash: eh.finish(), facts, results }
}

fn mismatch_sig(model: &RefView, call: &Call, got: &Res, want: &Res) -> String {
    let mut sig = format!("mismatch:{}:{}-for-{}", call.kind(), got.class(), want.class());
    if let Call::GetLineSlice(l, c, n) = call {
        // name the boundary class: different classes are different findings
        let mut cls = Vec::new();
        slice_classes(model, *l, *c, *n, &mut cls);
        let pick = ["slice:col+span>u32", "slice:start-mid-pair", "slice:end-mid-pair", "slice:span0"];
        for p in pick {
            if cls.contains(&p) {
                sig.push(':');
                sig.push_str(&p[6..]);
            }
        }
    }
    sig
}

#[derive(Default)]
struct Acc {
    runs: u64,
    calls: u64,
    partly: u64,
    distinct: KeySet,
    nontrivial: KeySet,
    cache_states: KeySet,
    classes: BTreeMap<&'static str, u64>,
    kinds: BTreeMap<&'static str, u64>,
    structural: BTreeMap<&'static str, u64>,
    violations: ViolationTable,
    digest: u64,
    det_checked: u64,
    det_mismatch: Vec<u64>,
    samples: Vec<(u64, Value)>,
}

fn one_run(acc: &mut Acc, base_seed: u64, i: u64, det_n: u64) {
    simcore::isolate::trace_run(i);
    let run_seed = rng::mix(base_seed, simcore::stage_domain(PROP), i);
    let mut rng = Rng::new(run_seed);
    let h = gen(&mut rng);
    let ex = execute(&h);
    if i < det_n {
        acc.det_checked += 1;
        if execute(&h).event_hash != ex.event_hash {
            acc.det_mismatch.push(i);
        }
    }
    acc.runs += 1;
    acc.calls += ex.facts.calls;
    acc.partly += ex.facts.partly_indexed_calls;
    let key = h.hash();
    acc.distinct.insert(key);
    if ex.facts.calls >= 2 && ex.facts.partly_indexed_calls > 0 {
        acc.nontrivial.insert(key);
    }
    for (n, c) in &ex.facts.cache_states {
        acc.cache_states.insert(((*n as u64) << 32) | *c as u64);
    }
    for c in &ex.facts.classes {
        *acc.classes.entry(c).or_default() += 1;
    }
    for op in &h.ops {
        match op {
            Op::Call(c) => *acc.kinds.entry(c.kind()).or_default() += 1,
            Op::Clone => *acc.structural.entry("clone").or_default() += 1,
            Op::Switch(_) => *acc.structural.entry("switch").or_default() += 1,
            Op::Fresh => *acc.structural.entry("fresh").or_default() += 1,
            Op::IterOpen => *acc.structural.entry("iter_open").or_default() += 1,
            Op::IterNext(_) => *acc.structural.entry("iter_next").or_default() += 1,
            Op::IterDrop(_) => *acc.structural.entry("iter_drop").or_default() += 1,
            Op::HoldLine(_) => *acc.structural.entry("hold_line").or_default() += 1,
        }
    }
    let mut d = H64::new();
    d.u64(i);
    d.u64(ex.event_hash);
    acc.digest = acc.digest.wrapping_add(d.finish());
    if let Some((sig, detail)) = &ex.verdict {
        acc.violations.add(sig.clone(), i, detail.clone());
    }
    if i < 3 {
        acc.samples.push((
            i,
            json!({"run_index": i, "run_seed": run_seed, "history": h.to_json(),
                   "results": ex.results.iter().map(|r| r.as_ref().map(Res::to_json)).collect::<Vec<_>>()}),
        ));
    }
}

fn minimise(h0: &History, sig: &str) -> (History, Value) {
    let mut probes = 0u64;
    // shrinking is best effort within a time budget (a failure that needs a very long line
    // would otherwise be probed once per character, each probe walking the whole text)
    let deadline = std::time::Instant::now() + std::time::Duration::from_secs(20);
    let fails = |h: &History, probes: &mut u64| {
        if std::time::Instant::now() > deadline {
            return false;
        }
        *probes += 1;
        execute(h).verdict.map(|v| v.0 == sig).unwrap_or(false)
    };
    let mut h = h0.clone();
    // drop everything after the failing op, then ddmin over the ops
    let ops = simcore::ddmin::ddmin(
        &h.ops,
        |ops| fails(&History { text: h.text.clone(), ops: ops.to_vec() }, &mut probes),
        2000,
    );
    h.ops = ops;
    // shrink the text: by chunks first (delta debugging over its characters), then character by
    // character
    {
        let chars: Vec<char> = h.text.chars().collect();
        if chars.len() > 64 {
            let kept = simcore::ddmin::ddmin(&chars, |cs| fails(&History { text: cs.iter().collect(), ops: h.ops.clone() }, &mut probes), 600);
            h.text = kept.iter().collect();
        }
    }
    loop {
        if h.text.chars().count() > 400 {
            break;
        }
        let chars: Vec<char> = h.text.chars().collect();
        let mut progressed = false;
        for i in 0..chars.len() {
            let t: String = chars.iter().enumerate().filter(|(j, _)| *j != i).map(|(_, c)| *c).collect();
            let cand = History { text: t, ops: h.ops.clone() };
            if fails(&cand, &mut probes) {
                h = cand;
                progressed = true;
                break;
            }
        }
        if !progressed {
            break;
        }
    }
    // shrink numeric arguments
    loop {
        let mut progressed = false;
        for k in 0..h.ops.len() {
            let cands: Vec<Op> = match &h.ops[k] {
                Op::Call(Call::GetLine(i)) if *i > 0 => vec![Op::Call(Call::GetLine(i / 2)), Op::Call(Call::GetLine(i - 1))],
                Op::Call(Call::LinesTake(i)) if *i > 0 => vec![Op::Call(Call::LinesTake(i - 1))],
                Op::Call(Call::GetLineSlice(l, c, n)) => {
                    let mut v = Vec::new();
                    if *l > 0 {
                        v.push(Op::Call(Call::GetLineSlice(l - 1, *c, *n)));
                    }
                    if *c > 0 {
                        v.push(Op::Call(Call::GetLineSlice(*l, c / 2, *n)));
                        v.push(Op::Call(Call::GetLineSlice(*l, c - 1, *n)));
                    }
                    if *n > 0 {
                        v.push(Op::Call(Call::GetLineSlice(*l, *c, n / 2)));
                        v.push(Op::Call(Call::GetLineSlice(*l, *c, n - 1)));
                    }
                    v
                }
                Op::Call(Call::Lines) => vec![Op::Call(Call::LineCount)],
                _ => vec![],
            };
            for c in cands {
                let mut cand = h.clone();
                cand.ops[k] = c;
                if fails(&cand, &mut probes) {
                    h = cand;
                    progressed = true;
                    break;
                }
            }
        }
        if !progressed || probes > 20_000 {
            break;
        }
    }
    let info = json!({"probes": probes, "original_ops": h0.ops.len(), "minimised_ops": h.ops.len(),
                      "original_text_chars": h0.text.chars().count(), "minimised_text_chars": h.text.chars().count()});
    (h, info)
}

fn do_replay(path: &str) -> i32 {
    let v = simcore::read_json(path);
    let h = History::from_json(&v["history"]).unwrap_or_else(|| harness_error("replay file: bad history"));
    let want_sig = v["signature"].as_str().unwrap_or("");
    let want_hash = v["event_hash"].as_str().unwrap_or("");
    let ex = execute(&h);
    let eh = format!("{:016x}", ex.event_hash);
    println!("text: {:?}", h.text);
    for (op, r) in h.ops.iter().zip(ex.results.iter()) {
        println!("  {:?} -> {:?}", op, r);
    }
    match ex.verdict {
        Some((sig, detail)) => {
            println!("replayed: signature={sig}\ndetail: {detail}");
            if sig == want_sig && (eh == want_hash || want_hash.is_empty()) {
                println!("VIOLATION property={PROP} replay={path}");
                1
            } else {
                println!("HARNESS-ERROR: replay diverged (signature {sig} vs {want_sig}, event hash {eh} vs {want_hash})");
                2
            }
        }
        None => {
            println!("replay of {path}: property held (recorded signature {want_sig}); the tree no longer fails this trace");
            0
        }
    }
}

pub fn main(args: &Args) -> i32 {
    let base_seed = args.num("--seed").unwrap_or_else(simcore::seed_from_env);
    let emit = |idx: u64, sig: &str| -> String {
        let run_seed = rng::mix(base_seed, simcore::stage_domain(PROP), idx);
        let h = gen(&mut Rng::new(run_seed));
        let path = simcore::replay_path(PROP, base_seed, idx);
        simcore::write_json_atomic(
            &path,
            &json!({"property": PROP, "profile": simcore::profile_name(), "engine": "sim_io/c15 (single-client SourceView histories)", "base_seed": base_seed, "run_index": idx,
                    "run_seed": run_seed, "history": h.to_json(), "signature": sig, "event_hash": "",
                    "detail": "the process died inside a library call while executing this history (not minimised)"}),
        );
        path
    };
    if let simcore::isolate::Supervised::Done(rc) = simcore::isolate::supervise(PROP, args, emit) {
        return rc;
    }
    if let Some(path) = args.value("--replay") {
        return do_replay(path);
    }
    let tier = simcore::tier_from(args);
    let workers = args.num("--workers").map(|w| w as usize).unwrap_or_else(simcore::par::workers_from_env);
    let runs = args.num("--runs").unwrap_or(match tier {
        Tier::Quick => 400_000,
        Tier::Thorough => 200_000_000 / if simcore::debug_stage() { 10 } else { 1 },
    });
    let det_n = match tier {
        Tier::Quick => 200.min(runs),
        Tier::Thorough => 2000.min(runs),
    };
    println!("sim_io property={PROP} tier={} VERIF_SEED={base_seed} runs={runs} workers={workers}{}", tier.name(), if simcore::debug_stage() { " stage=debug-profile" } else { "" });
    let t0 = std::time::Instant::now();
    let accs = simcore::par::run_batch(runs, workers, 4096, |_| Acc::default(), |acc: &mut Acc, i, _s: &AtomicBool| one_run(acc, base_seed, i, det_n));
    let mut acc = Acc::default();
    for a in accs {
        acc.runs += a.runs;
        acc.calls += a.calls;
        acc.partly += a.partly;
        acc.distinct.merge(a.distinct);
        acc.nontrivial.merge(a.nontrivial);
        acc.cache_states.merge(a.cache_states);
        for (k, v) in a.classes {
            *acc.classes.entry(k).or_default() += v;
        }
        for (k, v) in a.kinds {
            *acc.kinds.entry(k).or_default() += v;
        }
        for (k, v) in a.structural {
            *acc.structural.entry(k).or_default() += v;
        }
        acc.violations.merge(a.violations);
        acc.digest = acc.digest.wrapping_add(a.digest);
        acc.det_checked += a.det_checked;
        acc.det_mismatch.extend(a.det_mismatch);
        acc.samples.extend(a.samples);
    }
    acc.samples.sort_by_key(|s| s.0);
    let wall = t0.elapsed().as_secs_f64();
    if args.flag("--digest") {
        println!("DIGEST {:016x} runs={} violations={}", acc.digest, acc.runs, acc.violations.total());
        return 0;
    }
    if !acc.det_mismatch.is_empty() {
        harness_error(&format!("determinism self-test failed for runs {:?}", acc.det_mismatch));
    }
    let findings: Findings = simcore::load_findings();
    let (known, new) = acc.violations.classify(PROP, &findings);
    for l in &known {
        println!("{l}");
    }
    let mut reported = Vec::new();
    for (sig, idx, cnt, _detail) in new.iter().take(5) {
        let run_seed = rng::mix(base_seed, simcore::stage_domain(PROP), *idx);
        let h = gen(&mut Rng::new(run_seed));
        let (hm, info) = minimise(&h, sig);
        let ex = execute(&hm);
        let detail = ex.verdict.as_ref().map(|v| v.1.clone()).unwrap_or_default();
        let path = simcore::replay_path(PROP, base_seed, *idx);
        simcore::write_json_atomic(
            &path,
            &json!({"property": PROP, "profile": simcore::profile_name(), "engine": "sim_io/c15 (single-client SourceView histories)", "base_seed": base_seed,
                    "run_index": idx, "run_seed": run_seed, "history": hm.to_json(), "signature": sig, "detail": detail,
                    "event_hash": format!("{:016x}", ex.event_hash), "minimisation": info}),
        );
        if !simcore::verify_replay_in_fresh_process(PROP, &path) {
            harness_error(&format!("replay file {path} did not reproduce in a fresh process"));
        }
        println!("violation: signature={sig} runs={cnt} first_run={idx} :: {detail}");
        println!("VIOLATION property={PROP} replay={path}");
        reported.push(json!({"signature": sig, "runs": cnt, "first_run": idx, "replay": path, "detail": detail}));
    }
    let mut probe_fail = Vec::new();
    if tier == Tier::Thorough || runs >= 100_000 {
        for must in [
            "slice:start-mid-pair",
            "slice:end-mid-pair",
            "slice:col+span>u32",
            "slice:span0",
            "slice:line-out-of-range",
            "slice:ends-at-line-end",
            "slice:beyond-line-end",
            "slice:inside",
        ] {
            if acc.classes.get(must).copied().unwrap_or(0) == 0 {
                probe_fail.push(must.to_string());
            }
        }
        for must in ["clone", "switch", "fresh", "iter_open", "iter_next", "hold_line"] {
            if acc.structural.get(must).copied().unwrap_or(0) == 0 {
                probe_fail.push(must.to_string());
            }
        }
        if acc.partly == 0 {
            probe_fail.push("calls on a partly indexed view".into());
        }
    }
    let distinct = acc.distinct.len();
    let nontrivial = acc.nontrivial.len();
    let cache_states = acc.cache_states.len();
    let ev = json!({
        "property_id": PROP, "tier": tier.name(), "seed": base_seed, "level": "exploration",
        "wall_s": wall, "violations": reported.len(),
        "coverage": {
            "evaluations": acc.runs,
            "distinct_nontrivial": nontrivial,
            "rule": "one evaluation = one seeded history (text over {a, é, €, 👌, space, \\n, \\r, \\r\\n}, 1..13 operations, sometimes followed by a 8..40-call access pattern: get_line / line_count / lines / lines abandoned after k / get_line_slice / source / clone / switch view / fresh view / live lines() iterators advanced between other calls / lines kept borrowed and re-validated at the end) executed against the real SourceView and compared call by call with RefView; distinct = distinct (text, history) by 64-bit hash; non-trivial = at least two calls and at least one call served by a view that the model says was partly indexed at that moment (so the answer depends on what was asked before)",
            "samples": acc.samples.iter().map(|s| s.1.clone()).collect::<Vec<_>>(),
            "distinct_histories": distinct,
            "calls_checked": acc.calls,
            "calls_on_partly_indexed_view": acc.partly,
            "distinct_cache_states_visited (lines in text, lines cached before the call)": cache_states,
            "calls_by_kind": acc.kinds,
            "structural_ops": acc.structural,
            "slice_boundary_classes": acc.classes,
            "simulated_time": "not applicable: no clock in the crate; histories are sequential",
            "faults_injected": "none: this is the fault-free single-client configuration of the C16 simulator (DESIGN.md §4.2)",
            "runs_per_hour": if wall > 0.0 { (acc.runs as f64 / wall * 3600.0) as u64 } else { 0 },
            "determinism_selftest": {"runs_executed_twice": acc.det_checked, "mismatches": 0, "batch_digest": format!("{:016x}", acc.digest)},
            "violating_runs_total": acc.violations.total(),
            "known_findings_hit": known,
            "reported": reported,
            "real_vs_stub": {"real": ["sourcemap::SourceView as shipped (guard off, std Mutex/AtomicUsize)"], "stub": []},
        },
        "assumptions": [
            "RefView encodes the property statement literally: split at \\r\\n, \\n, lone \\r; slices are the characters whose UTF-16 units intersect [c, c+n) computed in u64, None when the line is shorter than c+n units",
            "harness build has overflow-checks = true, so wrapped arithmetic shows up as a panic",
            "sampled, not exhaustive"
        ],
    });
    simcore::write_json_atomic(&simcore::evidence_path(PROP), &ev);
    println!(
        "runs={} calls={} distinct={} nontrivial={} cache_states={} violating_runs={} wall={:.1}s digest={:016x}",
        acc.runs, acc.calls, distinct, nontrivial, cache_states, acc.violations.total(), wall, acc.digest
    );
    if !new.is_empty() {
        return 1;
    }
    if !probe_fail.is_empty() {
        harness_error(&format!("workload does not reach: {}", probe_fail.join("; ")));
    }
    0
}
