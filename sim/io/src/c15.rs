//! C15 — single-client configuration of the SourceView simulator: seeded call histories on the
//! lazily indexed view (shipped std build, guard off), checked call by call against `RefView`.

use serde_json::{json, Value};
use simcore::findings::Findings;
use simcore::hash::{KeySet, H64};
use simcore::panics;
use simcore::refview::{apply, Call, RefView, Res, ViewApi};
use simcore::rng::{self, Rng};
use simcore::{harness_error, Args, Tier, ViolationTable};
use sourcemap::SourceView;
use std::collections::BTreeMap;
use std::panic::{catch_unwind, AssertUnwindSafe};
use std::sync::atomic::AtomicBool;

const PROP: &str = "C15";

pub struct RealView(pub SourceView);

impl ViewApi for RealView {
    fn new_view(text: &str) -> Self {
        RealView(SourceView::new(text.into()))
    }
    fn clone_view(&self) -> Self {
        RealView(self.0.clone())
    }
    fn get_line(&self, idx: u32) -> Option<&str> {
        self.0.get_line(idx)
    }
    fn line_count(&self) -> usize {
        self.0.line_count()
    }
    fn lines_collect(&self, take: Option<u32>) -> Vec<String> {
        match take {
            None => self.0.lines().map(simcore::refview::own).collect(),
            Some(k) => self.0.lines().take(k as usize).map(simcore::refview::own).collect(),
        }
    }
    fn get_line_slice(&self, line: u32, col: u32, span: u32) -> Option<&str> {
        self.0.get_line_slice(line, col, span)
    }
    fn source(&self) -> &str {
        self.0.source()
    }
}

/// One step of a history. Views live in slots; `Clone` pushes a clone of the current view and
/// makes it current; `Switch(k)` makes slot k (mod number of slots) current; `Fresh` pushes a
/// new view over the same text (built through `from_string` every other time).
#[derive(Clone, Debug, PartialEq, Eq)]
pub enum Op {
    Call(Call),
    Clone,
    Switch(u32),
    Fresh,
}

impl Op {
    fn to_json(&self) -> Value {
        match self {
            Op::Call(c) => c.to_json(),
            Op::Clone => json!({"op": "clone"}),
            Op::Switch(k) => json!({"op": "switch", "slot": k}),
            Op::Fresh => json!({"op": "fresh"}),
        }
    }
    fn from_json(v: &Value) -> Option<Op> {
        match v.get("op")?.as_str()? {
            "clone" => Some(Op::Clone),
            "switch" => Some(Op::Switch(v.get("slot")?.as_u64()? as u32)),
            "fresh" => Some(Op::Fresh),
            _ => Call::from_json(v).map(Op::Call),
        }
    }
    fn hash_into(&self, h: &mut H64) {
        match self {
            Op::Call(c) => c.hash_into(h),
            Op::Clone => h.u64(100),
            Op::Switch(k) => {
                h.u64(101);
                h.u64(*k as u64)
            }
            Op::Fresh => h.u64(102),
        }
    }
}

#[derive(Clone, Debug)]
pub struct History {
    pub text: String,
    pub ops: Vec<Op>,
}

const ALPHA: [&str; 8] = ["a", "é", "€", "👌", " ", "\n", "\r", "\r\n"];

fn gen_text(rng: &mut Rng) -> String {
    // mostly tiny; 2 % long (hundreds of pieces) and 0.3 % very long (thousands): an
    // implementation may index in batches (64, 256, 1024 lines ...), and a text shorter than the
    // batch never leaves the first one
    let len = match rng.weighted(&[100, 400, 350, 127, 20, 3]) {
        0 => 0,
        1 => rng.range_usize(1, 5),
        2 => rng.range_usize(4, 12),
        3 => rng.range_usize(10, 24),
        4 => rng.range_usize(150, 900),
        _ => rng.range_usize(2500, 6000),
    };
    // per-text terminator density (swarm): sparse, medium, dense
    let term_w = *rng.pick(&[2u32, 6, 14]);
    let astral_w = *rng.pick(&[1u32, 4, 10]);
    let weights = [10, 4, 3, astral_w, 2, term_w, term_w, term_w];
    let mut t = String::new();
    for _ in 0..len {
        t.push_str(ALPHA[rng.weighted(&weights)]);
    }
    // bias: terminators at the very start / very end / doubled
    if rng.chance(1, 6) {
        t.insert_str(0, *rng.pick(&["\n", "\r", "\r\n", "\n\n", "\r\r"]));
    }
    if rng.chance(1, 5) {
        t.push_str(*rng.pick(&["\n", "\r", "\r\n", "\n\n", "\r\r\n", "\n\r"]));
    }
    t
}

const BIG: [u32; 4] = [1 << 31, u32::MAX - 1, u32::MAX, (1 << 31) - 1];

fn gen_call(rng: &mut Rng, model: &RefView) -> Call {
    let n = model.line_count() as u32;
    let line_idx = |rng: &mut Rng| -> u32 {
        match rng.weighted(&[70, 12, 10, 8]) {
            0 => rng.below(n as u64) as u32,
            1 => n,
            2 => n + 1 + rng.below(3) as u32,
            _ => *rng.pick(&BIG),
        }
    };
    match rng.weighted(&[34, 12, 6, 6, 38, 4]) {
        0 => Call::GetLine(line_idx(rng)),
        1 => Call::LineCount,
        2 => Call::Lines,
        3 => Call::LinesTake(rng.below(n as u64 + 2) as u32),
        4 => {
            let l = line_idx(rng);
            let units = model.line_units(l).unwrap_or(3) as u32;
            let small = |rng: &mut Rng| rng.below(units as u64 + 3) as u32;
            let c = if rng.chance(1, 12) { *rng.pick(&BIG) } else { small(rng) };
            let s = if rng.chance(1, 12) { *rng.pick(&BIG) } else { small(rng) };
            Call::GetLineSlice(l, c, s)
        }
        _ => Call::Source,
    }
}

pub fn gen(rng: &mut Rng) -> History {
    let text = gen_text(rng);
    let model = RefView::new(&text);
    let n = model.line_count() as u32;
    let nops = 1 + rng.weighted(&[8, 10, 12, 12, 10, 10, 8, 8, 6, 6, 5, 5]);
    let mut ops = Vec::with_capacity(nops);
    // order bias named by the property
    match rng.below(8) {
        0 => ops.push(Op::Call(Call::GetLine(n.saturating_sub(1)))), // a late line first
        1 => {
            ops.push(Op::Call(Call::GetLine(n))); // a missing line before a present one
            ops.push(Op::Call(Call::GetLine(rng.below(n as u64) as u32)));
        }
        2 => ops.push(Op::Call(Call::LineCount)), // counting before
        _ => {}
    }
    while ops.len() < nops {
        let op = match rng.weighted(&[86, 6, 5, 3]) {
            0 => Op::Call(gen_call(rng, &model)),
            1 => Op::Clone,
            2 => Op::Switch(rng.below(4) as u32),
            _ => Op::Fresh,
        };
        ops.push(op);
    }
    if rng.chance(1, 4) {
        ops.push(Op::Call(Call::LineCount)); // counting after
    }
    History { text, ops }
}

impl History {
    pub fn to_json(&self) -> Value {
        json!({"text": self.text, "ops": self.ops.iter().map(Op::to_json).collect::<Vec<_>>()})
    }
    pub fn from_json(v: &Value) -> Option<History> {
        Some(History {
            text: v.get("text")?.as_str()?.to_string(),
            ops: v.get("ops")?.as_array()?.iter().map(Op::from_json).collect::<Option<Vec<_>>>()?,
        })
    }
    pub fn hash(&self) -> u64 {
        let mut h = H64::new();
        h.str(&self.text);
        for o in &self.ops {
            o.hash_into(&mut h);
        }
        h.finish()
    }
}

/// Facts about one executed history, all derived from the model (not from the code under test).
#[derive(Default)]
pub struct Facts {
    pub calls: u64,
    pub partly_indexed_calls: u64,
    pub cache_states: Vec<(u32, u32)>,
    pub classes: Vec<&'static str>,
}

pub struct Exec {
    pub verdict: Option<(String, String)>,
    pub event_hash: u64,
    pub facts: Facts,
    pub results: Vec<Option<Res>>,
}

fn slice_classes(model: &RefView, l: u32, c: u32, n: u32, out: &mut Vec<&'static str>) {
    let hi = c as u64 + n as u64;
    match model.line_units(l) {
        None => out.push("slice:line-out-of-range"),
        Some(units) => {
            if hi > u32::MAX as u64 {
                out.push("slice:col+span>u32");
            }
            if n == 0 {
                out.push("slice:span0");
            }
            if model.is_mid_pair(l, c as u64) {
                out.push("slice:start-mid-pair");
            }
            if n > 0 && model.is_mid_pair(l, hi) {
                out.push("slice:end-mid-pair");
            }
            if hi == units {
                out.push("slice:ends-at-line-end");
            } else if hi > units {
                out.push("slice:beyond-line-end");
            } else {
                out.push("slice:inside");
            }
        }
    }
}

pub fn execute(h: &History) -> Exec {
    let model = RefView::new(&h.text);
    let n = model.line_count() as u32;
    let mut views: Vec<RealView> = vec![RealView::new_view(&h.text)];
    // model-inferred number of cached lines per slot
    let mut cached: Vec<u32> = vec![0];
    let mut cur = 0usize;
    let mut fresh_toggle = false;
    let mut eh = H64::new();
    let mut facts = Facts::default();
    let mut results = Vec::with_capacity(h.ops.len());
    let mut verdict = None;
    for (k, op) in h.ops.iter().enumerate() {
        match op {
            Op::Clone => {
                let v = views[cur].clone_view();
                views.push(v);
                cached.push(0);
                cur = views.len() - 1;
                results.push(None);
            }
            Op::Switch(s) => {
                cur = *s as usize % views.len();
                results.push(None);
            }
            Op::Fresh => {
                fresh_toggle = !fresh_toggle;
                let v = if fresh_toggle {
                    RealView(SourceView::from_string(h.text.clone()))
                } else {
                    RealView::new_view(&h.text)
                };
                views.push(v);
                cached.push(0);
                cur = views.len() - 1;
                results.push(None);
            }
            Op::Call(call) => {
                facts.calls += 1;
                let before = cached[cur];
                if before > 0 && before < n {
                    facts.partly_indexed_calls += 1;
                }
                facts.cache_states.push((n, before));
                // what the call needs indexed, by the model
                let need = match call {
                    Call::GetLine(i) | Call::GetLineSlice(i, _, _) => (*i as u64 + 1).min(n as u64) as u32,
                    Call::LineCount | Call::Lines => n,
                    Call::LinesTake(k) => (*k).min(n),
                    Call::Source | Call::CloneGetLine(_) => 0,
                };
                cached[cur] = cached[cur].max(need);
                if let Call::GetLineSlice(l, c, s) = call {
                    slice_classes(&model, *l, *c, *s, &mut facts.classes);
                }
                panics::clear();
                let view = &views[cur];
                let got = catch_unwind(AssertUnwindSafe(|| apply(view, call)));
                let want = model.answer(call);
                match got {
                    Ok(res) => {
                        res.hash_into(&mut eh);
                        if res != want {
                            let sig = mismatch_sig(&model, call, &res, &want);
                            let detail = format!(
                                "op #{k} {:?} on view slot {cur} (model: {before} of {n} lines cached) returned {:?}; the text's definition gives {:?}; text {:?}",
                                call, res, want, h.text
                            );
                            results.push(Some(res));
                            verdict = Some((sig, detail));
                            break;
                        }
                        results.push(Some(res));
                    }
                    Err(_) => {
                        let p = panics::take().unwrap_or(panics::PanicInfo { file: "<unknown>".into(), line: 0, msg: "?".into() });
                        eh.str(&p.msg);
                        let sig = panics::signature(&p);
                        let detail = format!("op #{k} {:?} panicked: {} at {}:{}; text {:?}", call, p.msg, p.file, p.line, h.text);
                        results.push(None);
                        verdict = Some((sig, detail));
                        break;
                    }
                }
            }
        }
    }
    Exec { verdict, event_hash: eh.finish(), facts, results }
}

fn mismatch_sig(model: &RefView, call: &Call, got: &Res, want: &Res) -> String {
    let mut sig = format!("mismatch:{}:{}-for-{}", call.kind(), got.class(), want.class());
    if let Call::GetLineSlice(l, c, n) = call {
        // name the boundary class: different classes are different findings
        let mut cls = Vec::new();
        slice_classes(model, *l, *c, *n, &mut cls);
        let pick = ["slice:col+span>u32", "slice:start-mid-pair", "slice:end-mid-pair", "slice:span0"];
        for p in pick {
            if cls.contains(&p) {
                sig.push(':');
                sig.push_str(&p[6..]);
            }
        }
    }
    sig
}

#[derive(Default)]
struct Acc {
    runs: u64,
    calls: u64,
    partly: u64,
    distinct: KeySet,
    nontrivial: KeySet,
    cache_states: KeySet,
    classes: BTreeMap<&'static str, u64>,
    kinds: BTreeMap<&'static str, u64>,
    structural: BTreeMap<&'static str, u64>,
    violations: ViolationTable,
    digest: u64,
    det_checked: u64,
    det_mismatch: Vec<u64>,
    samples: Vec<(u64, Value)>,
}

fn one_run(acc: &mut Acc, base_seed: u64, i: u64, det_n: u64) {
    simcore::isolate::trace_run(i);
    let run_seed = rng::mix(base_seed, rng::domain(PROP), i);
    let mut rng = Rng::new(run_seed);
    let h = gen(&mut rng);
    let ex = execute(&h);
    if i < det_n {
        acc.det_checked += 1;
        if execute(&h).event_hash != ex.event_hash {
            acc.det_mismatch.push(i);
        }
    }
    acc.runs += 1;
    acc.calls += ex.facts.calls;
    acc.partly += ex.facts.partly_indexed_calls;
    let key = h.hash();
    acc.distinct.insert(key);
    if ex.facts.calls >= 2 && ex.facts.partly_indexed_calls > 0 {
        acc.nontrivial.insert(key);
    }
    for (n, c) in &ex.facts.cache_states {
        acc.cache_states.insert(((*n as u64) << 32) | *c as u64);
    }
    for c in &ex.facts.classes {
        *acc.classes.entry(c).or_default() += 1;
    }
    for op in &h.ops {
        match op {
            Op::Call(c) => *acc.kinds.entry(c.kind()).or_default() += 1,
            Op::Clone => *acc.structural.entry("clone").or_default() += 1,
            Op::Switch(_) => *acc.structural.entry("switch").or_default() += 1,
            Op::Fresh => *acc.structural.entry("fresh").or_default() += 1,
        }
    }
    let mut d = H64::new();
    d.u64(i);
    d.u64(ex.event_hash);
    acc.digest = acc.digest.wrapping_add(d.finish());
    if let Some((sig, detail)) = &ex.verdict {
        acc.violations.add(sig.clone(), i, detail.clone());
    }
    if i < 3 {
        acc.samples.push((
            i,
            json!({"run_index": i, "run_seed": run_seed, "history": h.to_json(),
                   "results": ex.results.iter().map(|r| r.as_ref().map(Res::to_json)).collect::<Vec<_>>()}),
        ));
    }
}

fn minimise(h0: &History, sig: &str) -> (History, Value) {
    let mut probes = 0u64;
    let fails = |h: &History, probes: &mut u64| {
        *probes += 1;
        execute(h).verdict.map(|v| v.0 == sig).unwrap_or(false)
    };
    let mut h = h0.clone();
    // drop everything after the failing op, then ddmin over the ops
    let ops = simcore::ddmin::ddmin(
        &h.ops,
        |ops| fails(&History { text: h.text.clone(), ops: ops.to_vec() }, &mut probes),
        2000,
    );
    h.ops = ops;
    // shrink the text character by character
    loop {
        let chars: Vec<char> = h.text.chars().collect();
        let mut progressed = false;
        for i in 0..chars.len() {
            let t: String = chars.iter().enumerate().filter(|(j, _)| *j != i).map(|(_, c)| *c).collect();
            let cand = History { text: t, ops: h.ops.clone() };
            if fails(&cand, &mut probes) {
                h = cand;
                progressed = true;
                break;
            }
        }
        if !progressed {
            break;
        }
    }
    // shrink numeric arguments
    loop {
        let mut progressed = false;
        for k in 0..h.ops.len() {
            let cands: Vec<Op> = match &h.ops[k] {
                Op::Call(Call::GetLine(i)) if *i > 0 => vec![Op::Call(Call::GetLine(i / 2)), Op::Call(Call::GetLine(i - 1))],
                Op::Call(Call::LinesTake(i)) if *i > 0 => vec![Op::Call(Call::LinesTake(i - 1))],
                Op::Call(Call::GetLineSlice(l, c, n)) => {
                    let mut v = Vec::new();
                    if *l > 0 {
                        v.push(Op::Call(Call::GetLineSlice(l - 1, *c, *n)));
                    }
                    if *c > 0 {
                        v.push(Op::Call(Call::GetLineSlice(*l, c / 2, *n)));
                        v.push(Op::Call(Call::GetLineSlice(*l, c - 1, *n)));
                    }
                    if *n > 0 {
                        v.push(Op::Call(Call::GetLineSlice(*l, *c, n / 2)));
                        v.push(Op::Call(Call::GetLineSlice(*l, *c, n - 1)));
                    }
                    v
                }
                Op::Call(Call::Lines) => vec![Op::Call(Call::LineCount)],
                _ => vec![],
            };
            for c in cands {
                let mut cand = h.clone();
                cand.ops[k] = c;
                if fails(&cand, &mut probes) {
                    h = cand;
                    progressed = true;
                    break;
                }
            }
        }
        if !progressed || probes > 20_000 {
            break;
        }
    }
    let info = json!({"probes": probes, "original_ops": h0.ops.len(), "minimised_ops": h.ops.len(),
                      "original_text_chars": h0.text.chars().count(), "minimised_text_chars": h.text.chars().count()});
    (h, info)
}

fn do_replay(path: &str) -> i32 {
    let v = simcore::read_json(path);
    let h = History::from_json(&v["history"]).unwrap_or_else(|| harness_error("replay file: bad history"));
    let want_sig = v["signature"].as_str().unwrap_or("");
    let want_hash = v["event_hash"].as_str().unwrap_or("");
    let ex = execute(&h);
    let eh = format!("{:016x}", ex.event_hash);
    println!("text: {:?}", h.text);
    for (op, r) in h.ops.iter().zip(ex.results.iter()) {
        println!("  {:?} -> {:?}", op, r);
    }
    match ex.verdict {
        Some((sig, detail)) => {
            println!("replayed: signature={sig}\ndetail: {detail}");
            if sig == want_sig && (eh == want_hash || want_hash.is_empty()) {
                println!("VIOLATION property={PROP} replay={path}");
                1
            } else {
                println!("HARNESS-ERROR: replay diverged (signature {sig} vs {want_sig}, event hash {eh} vs {want_hash})");
                2
            }
        }
        None => {
            println!("replay of {path}: property held (recorded signature {want_sig}); the tree no longer fails this trace");
            0
        }
    }
}

pub fn main(args: &Args) -> i32 {
    let base_seed = args.num("--seed").unwrap_or_else(simcore::seed_from_env);
    let emit = |idx: u64, sig: &str| -> String {
        let run_seed = rng::mix(base_seed, rng::domain(PROP), idx);
        let h = gen(&mut Rng::new(run_seed));
        let path = format!("{}/replays/{PROP}-{}-{}.json", simcore::verif_dir(), base_seed, idx);
        simcore::write_json_atomic(
            &path,
            &json!({"property": PROP, "engine": "sim_io/c15 (single-client SourceView histories)", "base_seed": base_seed, "run_index": idx,
                    "run_seed": run_seed, "history": h.to_json(), "signature": sig, "event_hash": "",
                    "detail": "the process died inside a library call while executing this history (not minimised)"}),
        );
        path
    };
    if let simcore::isolate::Supervised::Done(rc) = simcore::isolate::supervise(PROP, args, emit) {
        return rc;
    }
    if let Some(path) = args.value("--replay") {
        return do_replay(path);
    }
    let tier = simcore::tier_from(args);
    let workers = args.num("--workers").map(|w| w as usize).unwrap_or_else(simcore::par::workers_from_env);
    let runs = args.num("--runs").unwrap_or(match tier {
        Tier::Quick => 400_000,
        Tier::Thorough => 200_000_000,
    });
    let det_n = match tier {
        Tier::Quick => 200.min(runs),
        Tier::Thorough => 2000.min(runs),
    };
    println!("sim_io property={PROP} tier={} VERIF_SEED={base_seed} runs={runs} workers={workers}", tier.name());
    let t0 = std::time::Instant::now();
    let accs = simcore::par::run_batch(runs, workers, 4096, |_| Acc::default(), |acc: &mut Acc, i, _s: &AtomicBool| one_run(acc, base_seed, i, det_n));
    let mut acc = Acc::default();
    for a in accs {
        acc.runs += a.runs;
        acc.calls += a.calls;
        acc.partly += a.partly;
        acc.distinct.merge(a.distinct);
        acc.nontrivial.merge(a.nontrivial);
        acc.cache_states.merge(a.cache_states);
        for (k, v) in a.classes {
            *acc.classes.entry(k).or_default() += v;
        }
        for (k, v) in a.kinds {
            *acc.kinds.entry(k).or_default() += v;
        }
        for (k, v) in a.structural {
            *acc.structural.entry(k).or_default() += v;
        }
        acc.violations.merge(a.violations);
        acc.digest = acc.digest.wrapping_add(a.digest);
        acc.det_checked += a.det_checked;
        acc.det_mismatch.extend(a.det_mismatch);
        acc.samples.extend(a.samples);
    }
    acc.samples.sort_by_key(|s| s.0);
    let wall = t0.elapsed().as_secs_f64();
    if args.flag("--digest") {
        println!("DIGEST {:016x} runs={} violations={}", acc.digest, acc.runs, acc.violations.total());
        return 0;
    }
    if !acc.det_mismatch.is_empty() {
        harness_error(&format!("determinism self-test failed for runs {:?}", acc.det_mismatch));
    }
    let findings: Findings = simcore::load_findings();
    let (known, new) = acc.violations.classify(PROP, &findings);
    for l in &known {
        println!("{l}");
    }
    let mut reported = Vec::new();
    for (sig, idx, cnt, _detail) in new.iter().take(5) {
        let run_seed = rng::mix(base_seed, rng::domain(PROP), *idx);
        let h = gen(&mut Rng::new(run_seed));
        let (hm, info) = minimise(&h, sig);
        let ex = execute(&hm);
        let detail = ex.verdict.as_ref().map(|v| v.1.clone()).unwrap_or_default();
        let path = format!("{}/replays/{PROP}-{}-{}.json", simcore::verif_dir(), base_seed, idx);
        simcore::write_json_atomic(
            &path,
            &json!({"property": PROP, "engine": "sim_io/c15 (single-client SourceView histories)", "base_seed": base_seed,
                    "run_index": idx, "run_seed": run_seed, "history": hm.to_json(), "signature": sig, "detail": detail,
                    "event_hash": format!("{:016x}", ex.event_hash), "minimisation": info}),
        );
        if !simcore::verify_replay_in_fresh_process(PROP, &path) {
            harness_error(&format!("replay file {path} did not reproduce in a fresh process"));
        }
        println!("violation: signature={sig} runs={cnt} first_run={idx} :: {detail}");
        println!("VIOLATION property={PROP} replay={path}");
        reported.push(json!({"signature": sig, "runs": cnt, "first_run": idx, "replay": path, "detail": detail}));
    }
    let mut probe_fail = Vec::new();
    if tier == Tier::Thorough || runs >= 100_000 {
        for must in [
            "slice:start-mid-pair",
            "slice:end-mid-pair",
            "slice:col+span>u32",
            "slice:span0",
            "slice:line-out-of-range",
            "slice:ends-at-line-end",
            "slice:beyond-line-end",
            "slice:inside",
        ] {
            if acc.classes.get(must).copied().unwrap_or(0) == 0 {
                probe_fail.push(must.to_string());
            }
        }
        for must in ["clone", "switch", "fresh"] {
            if acc.structural.get(must).copied().unwrap_or(0) == 0 {
                probe_fail.push(must.to_string());
            }
        }
        if acc.partly == 0 {
            probe_fail.push("calls on a partly indexed view".into());
        }
    }
    let distinct = acc.distinct.len();
    let nontrivial = acc.nontrivial.len();
    let cache_states = acc.cache_states.len();
    let ev = json!({
        "property_id": PROP, "tier": tier.name(), "seed": base_seed, "level": "exploration",
        "wall_s": wall, "violations": reported.len(),
        "coverage": {
            "evaluations": acc.runs,
            "distinct_nontrivial": nontrivial,
            "rule": "one evaluation = one seeded history (text over {a, é, €, 👌, space, \\n, \\r, \\r\\n}, 1..13 operations: get_line / line_count / lines / lines abandoned after k / get_line_slice / source / clone / switch view / fresh view) executed against the real SourceView and compared call by call with RefView; distinct = distinct (text, history) by 64-bit hash; non-trivial = at least two calls and at least one call served by a view that the model says was partly indexed at that moment (so the answer depends on what was asked before)",
            "samples": acc.samples.iter().map(|s| s.1.clone()).collect::<Vec<_>>(),
            "distinct_histories": distinct,
            "calls_checked": acc.calls,
            "calls_on_partly_indexed_view": acc.partly,
            "distinct_cache_states_visited (lines in text, lines cached before the call)": cache_states,
            "calls_by_kind": acc.kinds,
            "structural_ops": acc.structural,
            "slice_boundary_classes": acc.classes,
            "simulated_time": "not applicable: no clock in the crate; histories are sequential",
            "faults_injected": "none: this is the fault-free single-client configuration of the C16 simulator (DESIGN.md §4.2)",
            "runs_per_hour": if wall > 0.0 { (acc.runs as f64 / wall * 3600.0) as u64 } else { 0 },
            "determinism_selftest": {"runs_executed_twice": acc.det_checked, "mismatches": 0, "batch_digest": format!("{:016x}", acc.digest)},
            "violating_runs_total": acc.violations.total(),
            "known_findings_hit": known,
            "reported": reported,
            "real_vs_stub": {"real": ["sourcemap::SourceView as shipped (guard off, std Mutex/AtomicUsize)"], "stub": []},
        },
        "assumptions": [
            "RefView encodes the property statement literally: split at \\r\\n, \\n, lone \\r; slices are the characters whose UTF-16 units intersect [c, c+n) computed in u64, None when the line is shorter than c+n units",
            "harness build has overflow-checks = true, so wrapped arithmetic shows up as a panic",
            "sampled, not exhaustive"
        ],
    });
    simcore::write_json_atomic(&format!("{}/evidence/{PROP}.json", simcore::verif_dir()), &ev);
    println!(
        "runs={} calls={} distinct={} nontrivial={} cache_states={} violating_runs={} wall={:.1}s digest={:016x}",
        acc.runs, acc.calls, distinct, nontrivial, cache_states, acc.violations.total(), wall, acc.digest
    );
    if !new.is_empty() {
        return 1;
    }
    if !probe_fail.is_empty() {
        harness_error(&format!("workload does not reach: {}", probe_fail.join("; ")));
    }
    0
}
