//! The only source of choices in a simulated run.
//!
//! `mix` (SplitMix64 finaliser) derives the per-run seed from
//! (VERIF_SEED, property domain, run index); `Rng` is xoshiro256** seeded from it.
//! Nothing in here reads a clock, the environment or an address.

#[inline]
pub fn splitmix(x: &mut u64) -> u64 {
    *x = x.wrapping_add(0x9E37_79B9_7F4A_7C15);
    let mut z = *x;
    z = (z ^ (z >> 30)).wrapping_mul(0xBF58_476D_1CE4_E5B9);
    z = (z ^ (z >> 27)).wrapping_mul(0x94D0_49BB_1331_11EB);
    z ^ (z >> 31)
}

/// Derive the seed of run `i` of batch `domain` from the base seed.
pub fn mix(base: u64, domain: u64, i: u64) -> u64 {
    let mut s = base ^ 0xA076_1D64_78BD_642F;
    let a = splitmix(&mut s);
    let mut t = a ^ domain.wrapping_mul(0xE703_7ED1_A0B4_28DB);
    let b = splitmix(&mut t);
    let mut u = b ^ i.wrapping_mul(0x8EBC_6AF0_9C88_C6E3);
    splitmix(&mut u)
}

/// Domain tag from a short ASCII label, e.g. `domain("C16")`.
pub fn domain(label: &str) -> u64 {
    let mut h = 0xcbf2_9ce4_8422_2325u64;
    for b in label.bytes() {
        h ^= b as u64;
        h = h.wrapping_mul(0x0000_0100_0000_01B3);
    }
    h
}

#[derive(Clone, Debug)]
pub struct Rng {
    s: [u64; 4],
    /// number of draws so far (recorded in event logs, useful when debugging divergence)
    pub draws: u64,
}

impl Rng {
    pub fn new(seed: u64) -> Rng {
        let mut x = seed;
        let s = [
            splitmix(&mut x),
            splitmix(&mut x),
            splitmix(&mut x),
            splitmix(&mut x),
        ];
        Rng { s, draws: 0 }
    }

    #[inline]
    pub fn next_u64(&mut self) -> u64 {
        self.draws += 1;
        let result = self.s[1].wrapping_mul(5).rotate_left(7).wrapping_mul(9);
        let t = self.s[1] << 17;
        self.s[2] ^= self.s[0];
        self.s[3] ^= self.s[1];
        self.s[1] ^= self.s[2];
        self.s[0] ^= self.s[3];
        self.s[2] ^= t;
        self.s[3] = self.s[3].rotate_left(45);
        result
    }

    /// Uniform in `0..n` (n > 0). Multiply-shift; the bias is < 2^-32 for the n used here.
    #[inline]
    pub fn below(&mut self, n: u64) -> u64 {
        debug_assert!(n > 0);
        ((self.next_u64() as u128 * n as u128) >> 64) as u64
    }

    #[inline]
    pub fn below_usize(&mut self, n: usize) -> usize {
        self.below(n as u64) as usize
    }

    /// Uniform in `lo..=hi`.
    #[inline]
    pub fn range(&mut self, lo: u64, hi: u64) -> u64 {
        lo + self.below(hi - lo + 1)
    }

    #[inline]
    pub fn range_usize(&mut self, lo: usize, hi: usize) -> usize {
        self.range(lo as u64, hi as u64) as usize
    }

    /// True with probability num/den.
    #[inline]
    pub fn chance(&mut self, num: u64, den: u64) -> bool {
        self.below(den) < num
    }

    #[inline]
    pub fn pick<'a, T>(&mut self, xs: &'a [T]) -> &'a T {
        &xs[self.below_usize(xs.len())]
    }

    /// Index drawn according to integer weights.
    pub fn weighted(&mut self, weights: &[u32]) -> usize {
        let total: u64 = weights.iter().map(|&w| w as u64).sum();
        let mut x = self.below(total);
        for (i, &w) in weights.iter().enumerate() {
            if x < w as u64 {
                return i;
            }
            x -= w as u64;
        }
        weights.len() - 1
    }

    /// Geometric-ish size: small values likely, up to `max`.
    pub fn small(&mut self, max: usize) -> usize {
        let mut n = 0;
        while n < max && self.chance(2, 3) {
            n += 1;
        }
        n
    }
}

#[cfg(test)]
mod tests {
    use super::*;
    #[test]
    fn deterministic() {
        let mut a = Rng::new(mix(1, domain("x"), 7));
        let mut b = Rng::new(mix(1, domain("x"), 7));
        for _ in 0..100 {
            assert_eq!(a.next_u64(), b.next_u64());
        }
        assert_ne!(mix(1, 2, 3), mix(1, 2, 4));
        for n in 1..50u64 {
            for _ in 0..50 {
                assert!(a.below(n) < n);
            }
        }
    }
}
