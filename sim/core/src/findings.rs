//! /verif/KNOWN_FINDINGS.txt: committed, line-oriented, read-only at run time.
//!
//! ```text
//! finding: property=<id> sig=<signature> <what fails>      suppresses exactly that signature
//! fixed: property=<id> <commit> <what failed>              suppresses nothing
//! ```

use std::collections::BTreeMap;

#[derive(Default, Debug, Clone)]
pub struct Findings {
    /// (property, signature) -> description
    known: BTreeMap<(String, String), String>,
    pub fixed: Vec<String>,
}

impl Findings {
    pub fn load(path: &str) -> Result<Findings, String> {
        let text = match std::fs::read_to_string(path) {
            Ok(t) => t,
            Err(e) if e.kind() == std::io::ErrorKind::NotFound => return Ok(Findings::default()),
            Err(e) => return Err(format!("cannot read {path}: {e}")),
        };
        Findings::parse(&text)
    }

    pub fn parse(text: &str) -> Result<Findings, String> {
        let mut f = Findings::default();
        for (no, line) in text.lines().enumerate() {
            let line = line.trim();
            if line.is_empty() || line.starts_with('#') {
                continue;
            }
            if let Some(rest) = line.strip_prefix("finding:") {
                let mut prop = None;
                let mut sig = None;
                let mut words = rest.trim().splitn(3, ' ');
                for _ in 0..2 {
                    if let Some(w) = words.next() {
                        if let Some(p) = w.strip_prefix("property=") {
                            prop = Some(p.to_string());
                        } else if let Some(s) = w.strip_prefix("sig=") {
                            sig = Some(s.to_string());
                        }
                    }
                }
                let desc = words.next().unwrap_or("").to_string();
                match (prop, sig) {
                    (Some(p), Some(s)) => {
                        f.known.insert((p, s), desc);
                    }
                    _ => return Err(format!("KNOWN_FINDINGS line {}: need property= and sig=", no + 1)),
                }
            } else if line.starts_with("fixed:") {
                f.fixed.push(line.to_string());
            } else {
                return Err(format!("KNOWN_FINDINGS line {}: unknown record", no + 1));
            }
        }
        Ok(f)
    }

    pub fn lookup(&self, property: &str, sig: &str) -> Option<&str> {
        self.known
            .get(&(property.to_string(), sig.to_string()))
            .map(|s| s.as_str())
    }
}
