//! Panic capture and signatures.
//!
//! A process-wide hook records the *first* panic seen on the current OS thread since the last
//! `take()`/`clear()` (message and source location) into a thread-local and prints nothing, so
//! worker threads do not interfere with each other and batch output stays clean.

use crate::hash::hash_str;
use std::cell::RefCell;
use std::sync::Once;

#[derive(Clone, Debug, PartialEq, Eq)]
pub struct PanicInfo {
    pub file: String,
    pub line: u32,
    pub msg: String,
}

thread_local! {
    static LAST: RefCell<Option<PanicInfo>> = const { RefCell::new(None) };
    static QUIET: RefCell<bool> = const { RefCell::new(true) };
}

static INSTALL: Once = Once::new();

pub fn install_hook() {
    INSTALL.call_once(|| {
        let prev = std::panic::take_hook();
        let debug = std::env::var_os("VERIF_DEBUG_PANICS").is_some();
        std::panic::set_hook(Box::new(move |info| {
            let msg = if let Some(s) = info.payload().downcast_ref::<&str>() {
                (*s).to_string()
            } else if let Some(s) = info.payload().downcast_ref::<String>() {
                s.clone()
            } else {
                "<non-string panic payload>".to_string()
            };
            let (file, line) = info
                .location()
                .map(|l| (l.file().to_string(), l.line()))
                .unwrap_or_else(|| ("<unknown>".into(), 0));
            let quiet = QUIET.with(|q| *q.borrow());
            LAST.with(|l| {
                let mut l = l.borrow_mut();
                if l.is_none() {
                    *l = Some(PanicInfo { file, line, msg });
                }
            });
            if !quiet || debug {
                prev(info);
            }
        }));
    });
}

pub fn set_quiet(q: bool) {
    QUIET.with(|c| *c.borrow_mut() = q);
}

pub fn clear() {
    LAST.with(|l| *l.borrow_mut() = None);
}

pub fn take() -> Option<PanicInfo> {
    LAST.with(|l| l.borrow_mut().take())
}

/// Coarse class of a panic message (numbers removed), stable across inputs.
pub fn message_class(msg: &str) -> String {
    let m = msg;
    let has = |s: &str| m.contains(s);
    if has("attempt to add with overflow") {
        "add-overflow".into()
    } else if has("attempt to subtract with overflow") {
        "sub-overflow".into()
    } else if has("attempt to multiply with overflow") {
        "mul-overflow".into()
    } else if has("attempt to negate with overflow") {
        "neg-overflow".into()
    } else if has("attempt to shift") {
        "shift-overflow".into()
    } else if has("attempt to divide by zero") || has("attempt to calculate the remainder with a divisor of zero") {
        "div-zero".into()
    } else if has("PoisonError") {
        "poisoned".into()
    } else if has("is not a char boundary") {
        "char-boundary".into()
    } else if has("out of range for slice") || has("index out of bounds") || has("out of bounds") || has("slice index starts at") {
        "index-oob".into()
    } else if has("called `Option::unwrap()` on a `None` value") {
        "unwrap-none".into()
    } else if has("called `Result::unwrap()` on an `Err` value") {
        "unwrap-err".into()
    } else if has("capacity overflow") {
        "capacity-overflow".into()
    } else if has("deadlock!") {
        "deadlock".into()
    } else if has("exceeded max_steps") {
        "step-bound".into()
    } else {
        let stripped: String = m.chars().filter(|c| !c.is_ascii_digit()).take(60).collect();
        format!("other-{:08x}", hash_str(&stripped) as u32)
    }
}

/// Path relative to the repository if the file lies in it.
pub fn repo_relative(file: &str) -> Option<&str> {
    file.strip_prefix("/repo/")
}

/// `panic@src/types.rs:<hash of the trimmed source line>:<class>`; the line's *text* rather
/// than its number, so unrelated edits that shift line numbers keep the signature.
pub fn signature(p: &PanicInfo) -> String {
    let class = message_class(&p.msg);
    match repo_relative(&p.file) {
        Some(rel) => {
            let text = std::fs::read_to_string(&p.file)
                .ok()
                .and_then(|t| t.lines().nth(p.line.saturating_sub(1) as usize).map(|l| l.trim().to_string()))
                .unwrap_or_default();
            format!("panic@{}:{:08x}:{}", rel, hash_str(&text) as u32, class)
        }
        None => {
            // dependency or std: name the crate-ish tail of the path, not the registry prefix
            let tail: Vec<&str> = p.file.rsplit('/').take(3).collect();
            let tail: Vec<&str> = tail.into_iter().rev().collect();
            format!("panic@dep:{}:{}", tail.join("/"), class)
        }
    }
}
