//! Delta debugging over a list: find a small sub-list for which `fails` still holds.
//! Every probe is a deterministic re-execution, so the result is reproducible.

pub fn ddmin<T: Clone>(items: &[T], mut fails: impl FnMut(&[T]) -> bool, max_probes: usize) -> Vec<T> {
    let mut cur: Vec<T> = items.to_vec();
    let mut probes = 0usize;
    let mut n = 2usize;
    while cur.len() >= 2 && probes < max_probes {
        let chunk = (cur.len() + n - 1) / n;
        let mut reduced = false;
        // try complements (remove one chunk)
        let mut start = 0;
        while start < cur.len() && probes < max_probes {
            let end = (start + chunk).min(cur.len());
            let mut cand = Vec::with_capacity(cur.len() - (end - start));
            cand.extend_from_slice(&cur[..start]);
            cand.extend_from_slice(&cur[end..]);
            probes += 1;
            if fails(&cand) {
                cur = cand;
                n = n.saturating_sub(1).max(2);
                reduced = true;
                break;
            }
            start = end;
        }
        if !reduced {
            if n >= cur.len() {
                break;
            }
            n = (n * 2).min(cur.len());
        }
    }
    // final single-element pass
    let mut i = 0;
    while i < cur.len() && probes < max_probes {
        let mut cand = cur.clone();
        cand.remove(i);
        probes += 1;
        if fails(&cand) {
            cur = cand;
        } else {
            i += 1;
        }
    }
    cur
}

#[cfg(test)]
mod tests {
    use super::*;
    #[test]
    fn finds_pair() {
        let xs: Vec<u32> = (0..40).collect();
        let r = ddmin(&xs, |c| c.contains(&7) && c.contains(&31), 10_000);
        assert_eq!(r, vec![7, 31]);
    }
}
