//! `RefView`: the small executable reference model of `sourcemap::SourceView` (C15, C16),
//! written from the property statements only, plus the call vocabulary shared by the
//! single-client (C15) and multi-client (C16) configurations of the simulator.

use serde_json::{json, Value};

#[derive(Clone, Debug, PartialEq, Eq)]
pub enum Call {
    GetLine(u32),
    LineCount,
    /// `lines()` consumed to the end
    Lines,
    /// `lines()` abandoned after k items
    LinesTake(u32),
    GetLineSlice(u32, u32, u32),
    Source,
    /// clone the view (possibly while others index it) and ask the clone for a line
    CloneGetLine(u32),
}

#[derive(Clone, Debug, PartialEq, Eq)]
pub enum Res {
    Line(Option<String>),
    Count(u64),
    Lines(Vec<String>),
    Slice(Option<String>),
    Text(String),
}

impl Call {
    pub fn to_json(&self) -> Value {
        match self {
            Call::GetLine(i) => json!({"op": "get_line", "idx": i}),
            Call::LineCount => json!({"op": "line_count"}),
            Call::Lines => json!({"op": "lines"}),
            Call::LinesTake(k) => json!({"op": "lines_take", "k": k}),
            Call::GetLineSlice(l, c, n) => json!({"op": "get_line_slice", "line": l, "col": c, "span": n}),
            Call::Source => json!({"op": "source"}),
            Call::CloneGetLine(i) => json!({"op": "clone_get_line", "idx": i}),
        }
    }
    pub fn from_json(v: &Value) -> Option<Call> {
        let u = |k: &str| v.get(k).and_then(|x| x.as_u64()).map(|x| x as u32);
        Some(match v.get("op")?.as_str()? {
            "get_line" => Call::GetLine(u("idx")?),
            "line_count" => Call::LineCount,
            "lines" => Call::Lines,
            "lines_take" => Call::LinesTake(u("k")?),
            "get_line_slice" => Call::GetLineSlice(u("line")?, u("col")?, u("span")?),
            "source" => Call::Source,
            "clone_get_line" => Call::CloneGetLine(u("idx")?),
            _ => return None,
        })
    }
    pub fn kind(&self) -> &'static str {
        match self {
            Call::GetLine(_) => "get_line",
            Call::LineCount => "line_count",
            Call::Lines => "lines",
            Call::LinesTake(_) => "lines_take",
            Call::GetLineSlice(..) => "get_line_slice",
            Call::Source => "source",
            Call::CloneGetLine(_) => "clone_get_line",
        }
    }
    pub fn hash_into(&self, h: &mut crate::hash::H64) {
        match self {
            Call::GetLine(i) => {
                h.u64(1);
                h.u64(*i as u64)
            }
            Call::LineCount => h.u64(2),
            Call::Lines => h.u64(3),
            Call::LinesTake(k) => {
                h.u64(4);
                h.u64(*k as u64)
            }
            Call::GetLineSlice(l, c, n) => {
                h.u64(5);
                h.u64(*l as u64);
                h.u64(*c as u64);
                h.u64(*n as u64)
            }
            Call::Source => h.u64(6),
            Call::CloneGetLine(i) => {
                h.u64(7);
                h.u64(*i as u64)
            }
        }
    }
}

impl Res {
    pub fn to_json(&self) -> Value {
        match self {
            Res::Line(l) => json!({"line": l}),
            Res::Count(c) => json!({"count": c}),
            Res::Lines(ls) => json!({"lines": ls}),
            Res::Slice(s) => json!({"slice": s}),
            Res::Text(t) => json!({"text": t}),
        }
    }
    pub fn hash_into(&self, h: &mut crate::hash::H64) {
        match self {
            Res::Line(None) | Res::Slice(None) => h.u64(0),
            Res::Line(Some(s)) | Res::Slice(Some(s)) | Res::Text(s) => {
                h.u64(1);
                h.str(s)
            }
            Res::Count(c) => h.u64(*c),
            Res::Lines(ls) => {
                h.u64(ls.len() as u64);
                for l in ls {
                    h.str(l)
                }
            }
        }
    }
    /// Short class of a result, used in violation signatures.
    pub fn class(&self) -> &'static str {
        match self {
            Res::Line(None) | Res::Slice(None) => "None",
            Res::Line(Some(_)) | Res::Slice(Some(_)) => "Some",
            Res::Count(_) => "count",
            Res::Lines(_) => "lines",
            Res::Text(_) => "text",
        }
    }
}

/// What the engines must be able to do with the real view.
pub trait ViewApi: Sized {
    fn new_view(text: &str) -> Self;
    fn clone_view(&self) -> Self;
    fn get_line(&self, idx: u32) -> Option<&str>;
    fn line_count(&self) -> usize;
    /// `lines()`, collecting at most `take` items (None = all)
    fn lines_collect(&self, take: Option<u32>) -> Vec<String>;
    fn get_line_slice(&self, line: u32, col: u32, span: u32) -> Option<&str>;
    fn source(&self) -> &str;
}

/// Copy a `&str` handed out by the code under test. The view builds its lines with
/// `from_utf8_unchecked`, so a defect there can hand out a `str` that is not UTF-8; formatting
/// or comparing such a value is undefined behaviour, so it is validated first and replaced by
/// a visible marker (which then fails the comparison with the model like any wrong answer).
pub fn own(s: &str) -> String {
    match std::str::from_utf8(s.as_bytes()) {
        Ok(v) => v.to_owned(),
        Err(_) => format!("<INVALID UTF-8 returned by the library: {}>", crate::hash::hex(s.as_bytes())),
    }
}

pub fn apply<V: ViewApi>(v: &V, call: &Call) -> Res {
    match *call {
        Call::GetLine(i) => Res::Line(v.get_line(i).map(own)),
        Call::LineCount => Res::Count(v.line_count() as u64),
        Call::Lines => Res::Lines(v.lines_collect(None)),
        Call::LinesTake(k) => Res::Lines(v.lines_collect(Some(k))),
        Call::GetLineSlice(l, c, n) => Res::Slice(v.get_line_slice(l, c, n).map(own)),
        Call::Source => Res::Text(own(v.source())),
        Call::CloneGetLine(i) => {
            let c = v.clone_view();
            let r = c.get_line(i).map(own);
            Res::Line(r)
        }
    }
}

/// Reference model. Lines are the pieces obtained by splitting the text at `\r\n`, `\n` or a
/// lone `\r`; a trailing terminator yields a final empty piece; the empty text is one empty line.
#[derive(Clone, Debug)]
pub struct RefView {
    text: String,
    lines: Vec<(usize, usize)>,
}

impl RefView {
    pub fn new(text: &str) -> RefView {
        let b = text.as_bytes();
        let mut lines = Vec::new();
        let mut start = 0usize;
        let mut i = 0usize;
        while i < b.len() {
            if b[i] == b'\n' {
                lines.push((start, i));
                i += 1;
                start = i;
            } else if b[i] == b'\r' {
                lines.push((start, i));
                i += if i + 1 < b.len() && b[i + 1] == b'\n' { 2 } else { 1 };
                start = i;
            } else {
                i += 1;
            }
        }
        lines.push((start, b.len()));
        RefView { text: text.to_string(), lines }
    }

    pub fn text(&self) -> &str {
        &self.text
    }

    pub fn line_count(&self) -> usize {
        self.lines.len()
    }

    pub fn line(&self, idx: u32) -> Option<&str> {
        self.lines.get(idx as usize).map(|&(a, b)| &self.text[a..b])
    }

    /// The characters whose UTF-16 units intersect `[col, col+span)`, computed in u64 so the
    /// sum cannot wrap; `None` if the line has fewer than `col+span` units or does not exist.
    pub fn line_slice(&self, line: u32, col: u32, span: u32) -> Option<String> {
        let l = self.line(line)?;
        let lo = col as u64;
        let hi = col as u64 + span as u64;
        let mut unit = 0u64;
        let mut out = String::new();
        for ch in l.chars() {
            let w = ch.len_utf16() as u64;
            let (a, b) = (unit, unit + w);
            if lo < hi && a < hi && b > lo {
                out.push(ch);
            }
            unit = b;
        }
        if unit < hi {
            None
        } else {
            Some(out)
        }
    }

    /// UTF-16 length of a line.
    pub fn line_units(&self, line: u32) -> Option<u64> {
        self.line(line).map(|l| l.chars().map(|c| c.len_utf16() as u64).sum())
    }

    /// True if UTF-16 column `col` of `line` falls on the second half of a surrogate pair.
    pub fn is_mid_pair(&self, line: u32, col: u64) -> bool {
        if let Some(l) = self.line(line) {
            let mut unit = 0u64;
            for ch in l.chars() {
                let w = ch.len_utf16() as u64;
                if w == 2 && unit + 1 == col {
                    return true;
                }
                unit += w;
            }
        }
        false
    }

    pub fn answer(&self, call: &Call) -> Res {
        match *call {
            Call::GetLine(i) => Res::Line(self.line(i).map(str::to_owned)),
            Call::LineCount => Res::Count(self.lines.len() as u64),
            Call::Lines => Res::Lines((0..self.lines.len() as u32).map(|i| self.line(i).unwrap().to_owned()).collect()),
            Call::LinesTake(k) => Res::Lines(
                (0..self.lines.len().min(k as usize) as u32)
                    .map(|i| self.line(i).unwrap().to_owned())
                    .collect(),
            ),
            Call::GetLineSlice(l, c, n) => Res::Slice(self.line_slice(l, c, n)),
            Call::Source => Res::Text(self.text.clone()),
            Call::CloneGetLine(i) => Res::Line(self.line(i).map(str::to_owned)),
        }
    }
}

#[cfg(test)]
mod tests {
    use super::*;
    #[test]
    fn splitting() {
        let lines = |t: &str| -> Vec<String> {
            let r = RefView::new(t);
            (0..r.line_count() as u32).map(|i| r.line(i).unwrap().to_string()).collect()
        };
        assert_eq!(lines(""), vec![""]);
        assert_eq!(lines("a\nb\nc"), vec!["a", "b", "c"]);
        assert_eq!(lines("a\r\nb\rc\n"), vec!["a", "b", "c", ""]);
        assert_eq!(lines("\r\r\n\n"), vec!["", "", "", ""]);
        assert_eq!(lines("\n\r"), vec!["", "", ""]);
    }
    #[test]
    fn slices_from_repo_unit_test() {
        // the ten slices asserted by the repository's own unit test
        let r = RefView::new("abc👌def\nblah");
        let s = |l, c, n| r.line_slice(l, c, n);
        assert_eq!(s(0, 0, 3).as_deref(), Some("abc"));
        assert_eq!(s(0, 3, 1).as_deref(), Some("👌"));
        assert_eq!(s(0, 3, 2).as_deref(), Some("👌"));
        assert_eq!(s(0, 3, 3).as_deref(), Some("👌d"));
        assert_eq!(s(0, 0, 4).as_deref(), Some("abc👌"));
        assert_eq!(s(0, 0, 5).as_deref(), Some("abc👌"));
        assert_eq!(s(0, 0, 6).as_deref(), Some("abc👌d"));
        assert_eq!(s(1, 0, 4).as_deref(), Some("blah"));
        assert_eq!(s(1, 0, 5), None);
        assert_eq!(s(1, 0, 12), None);
        assert_eq!(s(0, u32::MAX, 2), None);
        assert_eq!(s(2, 0, 0), None);
        assert_eq!(s(1, 4, 0).as_deref(), Some(""));
        // an empty range names no code unit, hence no character, even inside a pair
        assert_eq!(s(0, 4, 0).as_deref(), Some(""));
        assert!(r.is_mid_pair(0, 4));
        assert!(!r.is_mid_pair(0, 3));
    }
}
