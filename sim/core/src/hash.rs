//! Fixed, seedless 64-bit hashing for event logs, distinct-case counting and signatures.
//! (std's `DefaultHasher` is avoided on purpose: its keys are an implementation detail.)

#[derive(Clone, Copy, Debug)]
pub struct H64(pub u64);

impl Default for H64 {
    fn default() -> Self {
        H64::new()
    }
}

impl H64 {
    pub const fn new() -> H64 {
        H64(0xcbf2_9ce4_8422_2325)
    }
    #[inline]
    pub fn byte(&mut self, b: u8) {
        self.0 ^= b as u64;
        self.0 = self.0.wrapping_mul(0x0000_0100_0000_01B3);
    }
    #[inline]
    pub fn bytes(&mut self, bs: &[u8]) {
        for &b in bs {
            self.byte(b);
        }
        // length terminator so that ("ab","c") != ("a","bc")
        self.u64(bs.len() as u64);
    }
    #[inline]
    pub fn str(&mut self, s: &str) {
        self.bytes(s.as_bytes())
    }
    #[inline]
    pub fn u64(&mut self, x: u64) {
        // mix whole words; cheaper than 8 byte rounds and good enough for set membership
        self.0 ^= x;
        self.0 = self.0.wrapping_mul(0x9E37_79B9_7F4A_7C15);
        self.0 ^= self.0 >> 29;
    }
    #[inline]
    pub fn finish(&self) -> u64 {
        let mut z = self.0;
        z = (z ^ (z >> 30)).wrapping_mul(0xBF58_476D_1CE4_E5B9);
        z = (z ^ (z >> 27)).wrapping_mul(0x94D0_49BB_1331_11EB);
        z ^ (z >> 31)
    }
}

pub fn hash_bytes(bs: &[u8]) -> u64 {
    let mut h = H64::new();
    h.bytes(bs);
    h.finish()
}

pub fn hash_str(s: &str) -> u64 {
    hash_bytes(s.as_bytes())
}

pub fn hex(bs: &[u8]) -> String {
    const D: &[u8; 16] = b"0123456789abcdef";
    let mut s = String::with_capacity(bs.len() * 2);
    for &b in bs {
        s.push(D[(b >> 4) as usize] as char);
        s.push(D[(b & 15) as usize] as char);
    }
    s
}

pub fn unhex(s: &str) -> Option<Vec<u8>> {
    let b = s.as_bytes();
    if b.len() % 2 != 0 {
        return None;
    }
    let v = |c: u8| -> Option<u8> {
        match c {
            b'0'..=b'9' => Some(c - b'0'),
            b'a'..=b'f' => Some(c - b'a' + 10),
            b'A'..=b'F' => Some(c - b'A' + 10),
            _ => None,
        }
    };
    let mut out = Vec::with_capacity(b.len() / 2);
    for p in b.chunks(2) {
        out.push(v(p[0])? << 4 | v(p[1])?);
    }
    Some(out)
}

/// A set of 64-bit keys used for "distinct cases" counts; workers keep their own and merge.
#[derive(Default, Clone)]
pub struct KeySet {
    keys: Vec<u64>,
    sorted_len: usize,
}

impl KeySet {
    pub fn insert(&mut self, k: u64) {
        self.keys.push(k);
        self.maybe_compact();
    }
    /// Keep the amortised cost low: sort only when the unsorted tail is large both in
    /// absolute terms and relative to the sorted part.
    fn maybe_compact(&mut self) {
        let tail = self.keys.len() - self.sorted_len;
        if tail > (1 << 20) && tail > self.sorted_len / 2 {
            self.compact();
        }
    }
    fn compact(&mut self) {
        if self.sorted_len == self.keys.len() {
            return;
        }
        self.keys.sort_unstable();
        self.keys.dedup();
        self.sorted_len = self.keys.len();
    }
    pub fn merge(&mut self, mut other: KeySet) {
        self.keys.append(&mut other.keys);
        self.maybe_compact();
    }
    pub fn len(&mut self) -> usize {
        self.compact();
        self.keys.len()
    }
    /// Sorted, de-duplicated keys.
    pub fn sorted(&mut self) -> &[u64] {
        self.compact();
        &self.keys
    }
    pub fn is_empty(&mut self) -> bool {
        self.len() == 0
    }
}
