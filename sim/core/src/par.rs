//! Batch execution: runs are independent and identified by their index; workers pull index
//! blocks from a shared counter, keep their own accumulator, and the accumulators are merged
//! with order-independent operations, so the outcome is the same for any worker count.

use std::sync::atomic::{AtomicBool, AtomicU64, Ordering};

pub fn workers_from_env() -> usize {
    std::env::var("VERIF_WORKERS")
        .ok()
        .and_then(|s| s.parse().ok())
        .filter(|&n: &usize| n >= 1)
        .unwrap_or_else(|| std::thread::available_parallelism().map(|n| n.get()).unwrap_or(4))
}

/// Run `f(acc, i)` for every `i in 0..n`. `stop` lets a worker end the batch early
/// (e.g. enough violations collected); indices already started still complete.
pub fn run_batch<A: Send, M, F>(n: u64, workers: usize, block: u64, make: M, f: F) -> Vec<A>
where
    M: Fn(usize) -> A + Sync,
    F: Fn(&mut A, u64, &AtomicBool) + Sync,
{
    run_batch_blocks(n, workers, block, make, |acc, lo, hi, stop| {
        for i in lo..hi {
            f(acc, i, stop);
        }
    })
}

/// As `run_batch`, but the callback receives whole index blocks `lo..hi`.
pub fn run_batch_blocks<A: Send, M, F>(n: u64, workers: usize, block: u64, make: M, f: F) -> Vec<A>
where
    M: Fn(usize) -> A + Sync,
    F: Fn(&mut A, u64, u64, &AtomicBool) + Sync,
{
    let next = AtomicU64::new(0);
    let stop = AtomicBool::new(false);
    let workers = workers.max(1);
    let block = block.max(1);
    let mut out = Vec::with_capacity(workers);
    std::thread::scope(|s| {
        let mut hs = Vec::new();
        for w in 0..workers {
            let next = &next;
            let stop = &stop;
            let make = &make;
            let f = &f;
            hs.push(
                std::thread::Builder::new()
                    .stack_size(64 << 20)
                    .spawn_scoped(s, move || {
                        let mut acc = make(w);
                        loop {
                            if stop.load(Ordering::Relaxed) {
                                break;
                            }
                            let lo = next.fetch_add(block, Ordering::Relaxed);
                            if lo >= n {
                                break;
                            }
                            let hi = (lo + block).min(n);
                            f(&mut acc, lo, hi, stop);
                        }
                        acc
                    })
                    .expect("spawn worker"),
            );
        }
        for h in hs {
            match h.join() {
                Ok(a) => out.push(a),
                Err(_) => {
                    eprintln!("HARNESS-ERROR: a worker thread panicked outside a library call");
                    std::process::exit(2);
                }
            }
        }
    });
    out
}
