//! Batch execution: runs are independent and identified by their index; workers pull index
//! blocks from a shared counter, keep their own accumulator, and the accumulators are merged
//! with order-independent operations, so the outcome is the same for any worker count.

use std::sync::atomic::{AtomicBool, AtomicU64, Ordering};

/// Exit code of a batch process whose watchdog found a worker stuck in one block (the library
/// spins or blocks inside a call). The supervising parent (isolate::supervise) then finds the run.
pub const STALL_EXIT: i32 = 86;
/// CPU seconds (or seconds blocked) one block of runs may take; a block is at most 256 runs of
/// milliseconds each.
pub const STALL_LIMIT_S: u64 = 30;

/// What the watchdog knows about one worker: thread id, when its current block started (ms
/// since the batch began, 0 = idle) and the thread's CPU time then (ms).
#[derive(Default)]
struct WorkerState {
    tid: AtomicU64,
    started_ms: AtomicU64,
    cpu_ms_at_start: AtomicU64,
    block_lo: AtomicU64,
}

/// Kernel id of the calling thread, from the /proc/thread-self link (".../task/<tid>").
fn own_tid() -> u64 {
    std::fs::read_link("/proc/thread-self").ok().and_then(|p| p.file_name().and_then(|n| n.to_str().and_then(|n| n.parse().ok()))).unwrap_or(0)
}

fn thread_stat(tid: u64) -> Option<(char, u64)> {
    let s = std::fs::read_to_string(format!("/proc/self/task/{tid}/stat")).ok()?;
    let rest = &s[s.rfind(')')? + 1..];
    let f: Vec<&str> = rest.split_whitespace().collect();
    let state = f.first()?.chars().next()?;
    let ut: u64 = f.get(11)?.parse().ok()?;
    let st: u64 = f.get(12)?.parse().ok()?;
    Some((state, (ut + st) * 10))
}

fn watchdog(states: &[WorkerState], t0: std::time::Instant, done: &AtomicBool) {
    // per worker: (block start seen, last CPU value, when it last changed)
    let mut last: Vec<(u64, u64, std::time::Instant)> = states.iter().map(|_| (0, 0, t0)).collect();
    while !done.load(Ordering::Relaxed) {
        std::thread::sleep(std::time::Duration::from_millis(500));
        let now_ms = t0.elapsed().as_millis() as u64;
        for (w, st) in states.iter().enumerate() {
            let started = st.started_ms.load(Ordering::Relaxed);
            if started == 0 || now_ms.saturating_sub(started) <= STALL_LIMIT_S * 1000 {
                continue;
            }
            let tid = st.tid.load(Ordering::Relaxed);
            let Some((state, cpu_ms)) = thread_stat(tid) else { continue };
            if last[w].0 != started || last[w].1 != cpu_ms {
                last[w] = (started, cpu_ms, std::time::Instant::now());
            }
            let burnt = cpu_ms.saturating_sub(st.cpu_ms_at_start.load(Ordering::Relaxed)) > STALL_LIMIT_S * 1000;
            let blocked = state == 'S' && last[w].2.elapsed().as_secs() > STALL_LIMIT_S;
            let outer = now_ms.saturating_sub(started) > STALL_LIMIT_S * 10_000;
            if burnt || blocked || outer {
                // the started block does not end: leave it to the supervising process to find the run
                eprintln!("STALL: worker {w} has been in the block starting at run {} for {} s ({})", st.block_lo.load(Ordering::Relaxed), (now_ms - started) / 1000, if blocked { "blocked" } else { "spinning" });
                std::process::exit(STALL_EXIT);
            }
        }
    }
}

pub fn workers_from_env() -> usize {
    std::env::var("VERIF_WORKERS")
        .ok()
        .and_then(|s| s.parse().ok())
        .filter(|&n: &usize| n >= 1)
        .unwrap_or_else(|| std::thread::available_parallelism().map(|n| n.get()).unwrap_or(4))
}

/// Run `f(acc, i)` for every `i in 0..n`. `stop` lets a worker end the batch early
/// (e.g. enough violations collected); indices already started still complete.
pub fn run_batch<A: Send, M, F>(n: u64, workers: usize, block: u64, make: M, f: F) -> Vec<A>
where
    M: Fn(usize) -> A + Sync,
    F: Fn(&mut A, u64, &AtomicBool) + Sync,
{
    run_batch_blocks(n, workers, block, make, |acc, lo, hi, stop| {
        for i in lo..hi {
            f(acc, i, stop);
        }
    })
}

/// As `run_batch`, but the callback receives whole index blocks `lo..hi`.
pub fn run_batch_blocks<A: Send, M, F>(n: u64, workers: usize, block: u64, make: M, f: F) -> Vec<A>
where
    M: Fn(usize) -> A + Sync,
    F: Fn(&mut A, u64, u64, &AtomicBool) + Sync,
{
    let next = AtomicU64::new(0);
    let stop = AtomicBool::new(false);
    let workers = workers.max(1);
    let block = block.max(1);
    let mut out = Vec::with_capacity(workers);
    let states: Vec<WorkerState> = (0..workers).map(|_| WorkerState::default()).collect();
    let t0 = std::time::Instant::now();
    let done = AtomicBool::new(false);
    std::thread::scope(|s| {
        let states = &states;
        let done = &done;
        s.spawn(move || watchdog(states, t0, done));
        let mut hs = Vec::new();
        for w in 0..workers {
            let next = &next;
            let stop = &stop;
            let make = &make;
            let f = &f;
            hs.push(
                std::thread::Builder::new()
                    .stack_size(64 << 20)
                    .spawn_scoped(s, move || {
                        let mut acc = make(w);
                        states[w].tid.store(own_tid(), Ordering::Relaxed);
                        loop {
                            if stop.load(Ordering::Relaxed) {
                                break;
                            }
                            let lo = next.fetch_add(block, Ordering::Relaxed);
                            if lo >= n {
                                break;
                            }
                            let hi = (lo + block).min(n);
                            let tid = states[w].tid.load(Ordering::Relaxed);
                            states[w].cpu_ms_at_start.store(thread_stat(tid).map(|x| x.1).unwrap_or(0), Ordering::Relaxed);
                            states[w].block_lo.store(lo, Ordering::Relaxed);
                            states[w].started_ms.store(t0.elapsed().as_millis() as u64 + 1, Ordering::Relaxed);
                            f(&mut acc, lo, hi, stop);
                            states[w].started_ms.store(0, Ordering::Relaxed);
                        }
                        acc
                    })
                    .expect("spawn worker"),
            );
        }
        for h in hs {
            match h.join() {
                Ok(a) => out.push(a),
                Err(_) => {
                    eprintln!("HARNESS-ERROR: a worker thread panicked outside a library call");
                    std::process::exit(2);
                }
            }
        }
        done.store(true, Ordering::Relaxed);
    });
    out
}
