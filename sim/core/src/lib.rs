//! Shared pieces of the deterministic simulator: PRNG and seed derivation, hashing,
//! batch runner, delta debugging, known-findings file, evidence/replay I/O, RefView.

pub mod ddmin;
pub mod findings;
pub mod hash;
pub mod isolate;
pub mod panics;
pub mod par;
pub mod refview;
pub mod rng;

use serde_json::Value;
use std::io::Write;

/// Where evidence, replays and the known-findings file live: $VERIF_DIR, default /verif
/// (the check driver exports its own directory, so a snapshot run writes into the snapshot).
pub fn verif_dir() -> String {
    match std::env::var("VERIF_DIR") {
        Ok(s) if !s.is_empty() => s,
        _ => "/verif".to_string(),
    }
}
pub const DEFAULT_SEED: u64 = 20261001;

/// Exit codes: 0 held, 1 violation, 2 harness error.
pub fn harness_error(msg: &str) -> ! {
    eprintln!("HARNESS-ERROR: {msg}");
    println!("HARNESS-ERROR: {msg}");
    std::process::exit(2)
}

pub fn seed_from_env() -> u64 {
    match std::env::var("VERIF_SEED") {
        Ok(s) if !s.trim().is_empty() => match s.trim().parse::<u64>() {
            Ok(v) => v,
            Err(_) => match s.trim().parse::<i64>() {
                Ok(v) => v as u64,
                Err(_) => harness_error(&format!("VERIF_SEED is not an integer: {s:?}")),
            },
        },
        _ => DEFAULT_SEED,
    }
}

#[derive(Clone, Copy, PartialEq, Eq, Debug)]
pub enum Tier {
    Quick,
    Thorough,
}

impl Tier {
    pub fn name(self) -> &'static str {
        match self {
            Tier::Quick => "quick",
            Tier::Thorough => "thorough",
        }
    }
    pub fn parse(s: &str) -> Option<Tier> {
        match s {
            "quick" => Some(Tier::Quick),
            "thorough" => Some(Tier::Thorough),
            _ => None,
        }
    }
}

pub fn write_json_atomic(path: &str, v: &Value) {
    let tmp = format!("{path}.tmp");
    if let Some(dir) = std::path::Path::new(path).parent() {
        let _ = std::fs::create_dir_all(dir);
    }
    let text = serde_json::to_string_pretty(v).expect("serialise json");
    let mut f = std::fs::File::create(&tmp).unwrap_or_else(|e| harness_error(&format!("create {tmp}: {e}")));
    f.write_all(text.as_bytes())
        .and_then(|_| f.write_all(b"\n"))
        .unwrap_or_else(|e| harness_error(&format!("write {tmp}: {e}")));
    drop(f);
    std::fs::rename(&tmp, path).unwrap_or_else(|e| harness_error(&format!("rename {tmp}: {e}")));
}

pub fn read_json(path: &str) -> Value {
    let text = std::fs::read_to_string(path).unwrap_or_else(|e| harness_error(&format!("read {path}: {e}")));
    serde_json::from_str(&text).unwrap_or_else(|e| harness_error(&format!("parse {path}: {e}")))
}

/// Simple `--key value` / `--flag` argument access.
pub struct Args(pub Vec<String>);

impl Args {
    pub fn from_env() -> Args {
        Args(std::env::args().skip(1).collect())
    }
    pub fn flag(&self, name: &str) -> bool {
        self.0.iter().any(|a| a == name)
    }
    pub fn value(&self, name: &str) -> Option<&str> {
        self.0
            .iter()
            .position(|a| a == name)
            .and_then(|i| self.0.get(i + 1))
            .map(|s| s.as_str())
    }
    pub fn num(&self, name: &str) -> Option<u64> {
        self.value(name).map(|s| {
            s.replace('_', "")
                .parse::<u64>()
                .unwrap_or_else(|_| harness_error(&format!("{name} needs an integer, got {s:?}")))
        })
    }
    pub fn positional(&self, idx: usize) -> Option<&str> {
        let mut n = 0;
        let mut i = 0;
        while i < self.0.len() {
            let a = &self.0[i];
            if a.starts_with("--") {
                // flags that take a value
                if matches!(
                    a.as_str(),
                    "--runs" | "--seed" | "--replay" | "--workers" | "--tier" | "--only" | "--start" | "--end" | "--det" | "--replay-child" | "--run-index" | "--mode" | "--out"
                ) {
                    i += 1;
                }
            } else {
                if n == idx {
                    return Some(a);
                }
                n += 1;
            }
            i += 1;
        }
        None
    }
}

pub fn tier_from(args: &Args) -> Tier {
    if let Some(t) = args.value("--tier") {
        return Tier::parse(t).unwrap_or_else(|| harness_error("bad --tier"));
    }
    match std::env::var("VERIF_TIER") {
        Ok(s) if !s.is_empty() => Tier::parse(&s).unwrap_or(Tier::Quick),
        _ => Tier::Quick,
    }
}

/// A violation as reported by an engine, before known-findings filtering.
#[derive(Clone, Debug)]
pub struct Violation {
    pub run_index: u64,
    pub run_seed: u64,
    pub signature: String,
    pub detail: String,
}

/// signature -> (lowest run index, number of runs, detail of the lowest run)
#[derive(Default, Clone, Debug)]
pub struct ViolationTable(pub std::collections::BTreeMap<String, (u64, u64, String)>);

impl ViolationTable {
    pub fn add(&mut self, sig: String, idx: u64, detail: String) {
        let e = self.0.entry(sig).or_insert((idx, 0, detail.clone()));
        e.1 += 1;
        if idx < e.0 {
            e.0 = idx;
            e.2 = detail;
        }
    }
    pub fn merge(&mut self, other: ViolationTable) {
        for (sig, (idx, cnt, det)) in other.0 {
            let e = self.0.entry(sig).or_insert((idx, 0, det.clone()));
            e.1 += cnt;
            if idx < e.0 {
                e.0 = idx;
                e.2 = det;
            }
        }
    }
    pub fn total(&self) -> u64 {
        self.0.values().map(|v| v.1).sum()
    }
    /// Split into (known-finding lines to print, new violations sorted by first run index).
    pub fn classify(&self, property: &str, findings: &findings::Findings) -> (Vec<String>, Vec<(String, u64, u64, String)>) {
        let mut known = Vec::new();
        let mut new = Vec::new();
        for (sig, (idx, cnt, detail)) in &self.0 {
            if let Some(desc) = findings.lookup(property, sig) {
                known.push(format!("KNOWN-FINDING: property={property} sig={sig} runs={cnt} first_run={idx} {desc}"));
            } else {
                new.push((sig.clone(), *idx, *cnt, detail.clone()));
            }
        }
        new.sort_by_key(|v| v.1);
        (known, new)
    }
}

pub fn load_findings() -> findings::Findings {
    findings::Findings::load(&format!("{}/KNOWN_FINDINGS.txt", verif_dir())).unwrap_or_else(|e| harness_error(&e))
}

/// Run `<current exe> <prop> --replay <path>` in a fresh process; true if it reproduces (exit 1).
pub fn verify_replay_in_fresh_process(prop: &str, path: &str) -> bool {
    let exe = std::env::current_exe().unwrap_or_else(|e| harness_error(&format!("current_exe: {e}")));
    let st = std::process::Command::new(exe)
        .args([prop, "--replay", path])
        .stdout(std::process::Stdio::null())
        .stderr(std::process::Stdio::null())
        .status()
        .unwrap_or_else(|e| harness_error(&format!("spawn replay: {e}")));
    st.code() == Some(1)
}

// ---------------------------------------------------------------- build-profile stages

/// True in the `devsim` build of the simulators (library at opt-level 0, debug assertions on):
/// the second stage of the sim_io checks. The stage is a property of the binary, not a flag.
pub fn debug_stage() -> bool {
    cfg!(debug_assertions)
}

pub fn profile_name() -> &'static str {
    if debug_stage() {
        "devsim"
    } else {
        "release"
    }
}

/// Run domain of a property: the second stage explores other cases than the first for one VERIF_SEED.
pub fn stage_domain(prop: &str) -> u64 {
    if debug_stage() {
        rng::domain(&format!("{prop}/debug-profile"))
    } else {
        rng::domain(prop)
    }
}

pub fn replay_path(prop: &str, base_seed: u64, idx: u64) -> String {
    format!("{}/replays/{prop}-{}{}-{}.json", verif_dir(), if debug_stage() { "debugprofile-" } else { "" }, base_seed, idx)
}

/// Where a stage writes its evidence: stage 1 writes evidence/<id>.json, stage 2 a file the
/// driver merges into it under coverage.debug_profile_stage.
pub fn evidence_path(prop: &str) -> String {
    if debug_stage() {
        format!("{}/sim/target/{prop}-debug-stage.json", verif_dir())
    } else {
        format!("{}/evidence/{prop}.json", verif_dir())
    }
}
