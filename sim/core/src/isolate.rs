//! Crash containment for the in-process engines (C12, C15, C16). The code under test contains
//! `unsafe` (`from_utf8_unchecked`, `from_raw_parts`); a defect there can kill the process
//! (SIGSEGV, abort) instead of panicking. The engine therefore runs its batch in a child
//! process; if the child dies, a second, single-worker child announces every run before
//! starting it, which pins the crash on one run index; the parent writes a replay file for that
//! run, confirms it in a third process and reports the violation.

use std::os::unix::fs::FileExt;
use std::os::unix::process::ExitStatusExt;
use std::sync::OnceLock;

static TRACE: OnceLock<Option<std::fs::File>> = OnceLock::new();

fn trace_file() -> &'static Option<std::fs::File> {
    TRACE.get_or_init(|| {
        std::env::var("VERIF_TRACE_FILE")
            .ok()
            .filter(|s| !s.is_empty())
            .and_then(|p| std::fs::OpenOptions::new().create(true).write(true).truncate(false).open(p).ok())
    })
}

/// True in the pin-pointing pass: engines then announce every run (and use block size 1).
pub fn tracing() -> bool {
    trace_file().is_some()
}

/// Announce run `i` before starting it (no-op unless VERIF_TRACE_FILE is set).
#[inline]
pub fn trace_run(i: u64) {
    if let Some(f) = trace_file() {
        let _ = f.write_at(&(i + 1).to_le_bytes(), 0);
    }
}

pub enum Supervised {
    /// we are the child (or isolation is off): do the work in this process
    InProcess,
    /// the work was done by children; exit with this code
    Done(i32),
}

fn describe(st: &std::process::ExitStatus) -> String {
    match st.signal() {
        Some(s) => format!("signal-{s}"),
        None => format!("exit-{}", st.code().unwrap_or(-1)),
    }
}

fn spawn_self(extra_args: &[&str], envs: &[(&str, &str)], quiet: bool) -> std::process::ExitStatus {
    let exe = std::env::current_exe().unwrap_or_else(|e| crate::harness_error(&format!("current_exe: {e}")));
    let mut cmd = std::process::Command::new(exe);
    cmd.args(std::env::args().skip(1)).args(extra_args).env("VERIF_INPROC", "1");
    for (k, v) in envs {
        cmd.env(k, v);
    }
    if quiet {
        cmd.stdout(std::process::Stdio::null()).stderr(std::process::Stdio::null());
    }
    cmd.status().unwrap_or_else(|e| crate::harness_error(&format!("spawn self: {e}")))
}

/// `emit_replay(run index, signature)` must write a replay file for that run *without executing
/// library code* and return its path.
pub fn supervise(prop: &str, args: &crate::Args, emit_replay: impl Fn(u64, &str) -> String) -> Supervised {
    if std::env::var_os("VERIF_INPROC").is_some() || std::env::var_os("VERIF_NO_ISOLATION").is_some() {
        return Supervised::InProcess;
    }
    let st = spawn_self(&[], &[], false);
    if let Some(c) = st.code() {
        if (0..=2).contains(&c) {
            return Supervised::Done(c);
        }
    }
    let how = describe(&st);
    if let Some(path) = args.value("--replay") {
        let v = crate::read_json(path);
        let want = v["signature"].as_str().unwrap_or("");
        let got = format!("abort:{how}");
        if want == got {
            println!("replayed: the process died ({how}) while executing the recorded case");
            println!("VIOLATION property={prop} replay={path}");
            return Supervised::Done(1);
        }
        println!("HARNESS-ERROR: replay process died ({how}); recorded signature {want}");
        return Supervised::Done(2);
    }
    println!("note: the batch process died ({how}); re-running single-threaded with run announcements to find the run");
    let trace = format!("{}/replays/.trace-{}-{}", crate::verif_dir(), prop, std::process::id());
    let _ = std::fs::create_dir_all(format!("{}/replays", crate::verif_dir()));
    let _ = std::fs::remove_file(&trace);
    let st2 = spawn_self(&["--workers", "1"], &[("VERIF_TRACE_FILE", &trace)], true);
    let idx = std::fs::read(&trace).ok().filter(|b| b.len() >= 8).map(|b| u64::from_le_bytes(b[..8].try_into().unwrap())).unwrap_or(0);
    let _ = std::fs::remove_file(&trace);
    if st2.code().map(|c| (0..=2).contains(&c)).unwrap_or(false) || idx == 0 {
        println!("HARNESS-ERROR: the batch died ({how}) but the single-threaded pass ended with {} (run announced: {})", describe(&st2), idx);
        return Supervised::Done(2);
    }
    let idx = idx - 1;
    let how2 = describe(&st2);
    let sig = format!("abort:{how2}");
    let path = emit_replay(idx, &sig);
    // confirm in a fresh process
    let exe = std::env::current_exe().unwrap_or_else(|e| crate::harness_error(&format!("current_exe: {e}")));
    let st3 = std::process::Command::new(exe)
        .args([prop, "--replay", &path])
        .env("VERIF_INPROC", "1")
        .stdout(std::process::Stdio::null())
        .stderr(std::process::Stdio::null())
        .status()
        .unwrap_or_else(|e| crate::harness_error(&format!("spawn replay: {e}")));
    if describe(&st3) != how2 {
        println!("HARNESS-ERROR: run {idx} was announced when the process died ({how2}) but its replay ends with {}", describe(&st3));
        return Supervised::Done(2);
    }
    println!("violation: signature={sig} first_run={idx} :: the process died ({how2}) inside a library call of this run (memory unsafety, stack overflow or abort)");
    println!("VIOLATION property={prop} replay={path}");
    Supervised::Done(1)
}
