//! Crash containment for the in-process engines (C12, C15, C16). The code under test contains
//! `unsafe` (`from_utf8_unchecked`, `from_raw_parts`); a defect there can kill the process
//! (SIGSEGV, abort) instead of panicking. The engine therefore runs its batch in a child
//! process; if the child dies, a second, single-worker child announces every run before
//! starting it, which pins the crash on one run index; the parent writes a replay file for that
//! run, confirms it in a third process and reports the violation.

use std::os::unix::fs::FileExt;
use std::os::unix::process::ExitStatusExt;
use std::sync::OnceLock;

static TRACE: OnceLock<Option<std::fs::File>> = OnceLock::new();

fn trace_file() -> &'static Option<std::fs::File> {
    TRACE.get_or_init(|| {
        std::env::var("VERIF_TRACE_FILE")
            .ok()
            .filter(|s| !s.is_empty())
            .and_then(|p| std::fs::OpenOptions::new().create(true).write(true).truncate(false).open(p).ok())
    })
}

/// True in the pin-pointing pass: engines then announce every run (and use block size 1).
pub fn tracing() -> bool {
    trace_file().is_some()
}

/// Announce run `i` before starting it (no-op unless VERIF_TRACE_FILE is set).
#[inline]
pub fn trace_run(i: u64) {
    if let Some(f) = trace_file() {
        let _ = f.write_at(&(i + 1).to_le_bytes(), 0);
    }
}

pub enum Supervised {
    /// we are the child (or isolation is off): do the work in this process
    InProcess,
    /// the work was done by children; exit with this code
    Done(i32),
}

fn describe(st: &std::process::ExitStatus) -> String {
    match st.signal() {
        Some(s) => format!("signal-{s}"),
        None if st.code() == Some(crate::par::STALL_EXIT) => "stall".to_string(),
        None => format!("exit-{}", st.code().unwrap_or(-1)),
    }
}

/// Signature of a run that took the process down: a death is `abort:<how>`, a run that never
/// ends (spins or blocks inside a library call) is `hang:no-result`.
fn death_signature(how: &str) -> String {
    if how == "stall" {
        "hang:no-result".to_string()
    } else {
        format!("abort:{how}")
    }
}

fn spawn_self(extra_args: &[&str], envs: &[(&str, &str)], quiet: bool) -> std::process::ExitStatus {
    let exe = std::env::current_exe().unwrap_or_else(|e| crate::harness_error(&format!("current_exe: {e}")));
    let mut cmd = std::process::Command::new(exe);
    cmd.args(std::env::args().skip(1)).args(extra_args).env("VERIF_INPROC", "1");
    for (k, v) in envs {
        cmd.env(k, v);
    }
    if quiet {
        cmd.stdout(std::process::Stdio::null()).stderr(std::process::Stdio::null());
    }
    if !std::env::args().any(|a| a == "--replay") {
        // a batch watches its own workers (par::watchdog) and ends with STALL_EXIT
        return cmd.status().unwrap_or_else(|e| crate::harness_error(&format!("spawn self: {e}")));
    }
    // a replay executes one case without the batch runner: watch it from here
    let mut child = cmd.spawn().unwrap_or_else(|e| crate::harness_error(&format!("spawn self: {e}")));
    wait_watched(&mut child)
}

/// Wait for a child that executes a single case; a stalled one is killed and reported with
/// the exit status a stalled batch has (STALL_EXIT).
fn wait_watched(child: &mut std::process::Child) -> std::process::ExitStatus {
    let mut watch = Watch::new(child.id());
    loop {
        match child.try_wait() {
            Ok(Some(st)) => return st,
            Ok(None) => {
                if watch.stalled(child.id(), crate::par::STALL_LIMIT_S) {
                    let _ = child.kill();
                    let _ = child.wait();
                    return std::process::ExitStatus::from_raw(crate::par::STALL_EXIT << 8);
                }
                std::thread::sleep(std::time::Duration::from_millis(20));
            }
            Err(e) => crate::harness_error(&format!("wait: {e}")),
        }
    }
}

/// `emit_replay(run index, signature)` must write a replay file for that run *without executing
/// library code* and return its path.
pub fn supervise(prop: &str, args: &crate::Args, emit_replay: impl Fn(u64, &str) -> String) -> Supervised {
    if std::env::var_os("VERIF_INPROC").is_some() || std::env::var_os("VERIF_NO_ISOLATION").is_some() {
        return Supervised::InProcess;
    }
    let st = spawn_self(&[], &[], false);
    if let Some(c) = st.code() {
        if (0..=2).contains(&c) {
            return Supervised::Done(c);
        }
    }
    let how = describe(&st);
    if let Some(path) = args.value("--replay") {
        let v = crate::read_json(path);
        let want = v["signature"].as_str().unwrap_or("");
        let got = death_signature(&how);
        if want == got {
            println!("replayed: the process {} while executing the recorded case", if how == "stall" { "did not finish (stalled)".to_string() } else { format!("died ({how})") });
            println!("VIOLATION property={prop} replay={path}");
            return Supervised::Done(1);
        }
        println!("HARNESS-ERROR: replay process died ({how}); recorded signature {want}");
        return Supervised::Done(2);
    }
    println!("note: the batch process {}; re-running single-threaded with run announcements to find the run", if how == "stall" { "stalled in one block of runs".to_string() } else { format!("died ({how})") });
    let trace = format!("{}/replays/.trace-{}-{}", crate::verif_dir(), prop, std::process::id());
    let _ = std::fs::create_dir_all(format!("{}/replays", crate::verif_dir()));
    let _ = std::fs::remove_file(&trace);
    let st2 = spawn_self(&["--workers", "1"], &[("VERIF_TRACE_FILE", &trace)], true);
    let idx = std::fs::read(&trace).ok().filter(|b| b.len() >= 8).map(|b| u64::from_le_bytes(b[..8].try_into().unwrap())).unwrap_or(0);
    let _ = std::fs::remove_file(&trace);
    if st2.code().map(|c| (0..=2).contains(&c)).unwrap_or(false) || idx == 0 {
        println!("HARNESS-ERROR: the batch died ({how}) but the single-threaded pass ended with {} (run announced: {})", describe(&st2), idx);
        return Supervised::Done(2);
    }
    let idx = idx - 1;
    let how2 = describe(&st2);
    let sig = death_signature(&how2);
    let path = emit_replay(idx, &sig);
    // confirm in a fresh process
    let exe = std::env::current_exe().unwrap_or_else(|e| crate::harness_error(&format!("current_exe: {e}")));
    let mut c3 = std::process::Command::new(exe)
        .args([prop, "--replay", &path])
        .env("VERIF_INPROC", "1")
        .stdout(std::process::Stdio::null())
        .stderr(std::process::Stdio::null())
        .spawn()
        .unwrap_or_else(|e| crate::harness_error(&format!("spawn replay: {e}")));
    let st3 = wait_watched(&mut c3);
    if describe(&st3) != how2 {
        println!("HARNESS-ERROR: run {idx} was announced when the process died ({how2}) but its replay ends with {}", describe(&st3));
        return Supervised::Done(2);
    }
    if how2 == "stall" {
        println!("violation: signature={sig} first_run={idx} :: a library call of this run does not return (more than {} s of CPU time, or blocked for as long)", crate::par::STALL_LIMIT_S);
    } else {
        println!("violation: signature={sig} first_run={idx} :: the process died ({how2}) inside a library call of this run (memory unsafety, stack overflow or abort)");
    }
    println!("VIOLATION property={prop} replay={path}");
    Supervised::Done(1)
}

// ---------------------------------------------------------------- progress watch (stalls)

/// CPU time (user + system, all threads) a process has used, from /proc/<pid>/stat. The
/// backstop counts this, not wall-clock time, so that a loaded machine cannot make a healthy
/// run look stalled; wall-clock time only bounds it from far above (a run that neither
/// finishes nor burns CPU).
pub fn cpu_seconds(pid: u32) -> Option<f64> {
    let s = std::fs::read_to_string(format!("/proc/{pid}/stat")).ok()?;
    let rest = &s[s.rfind(')')? + 1..];
    let f: Vec<&str> = rest.split_whitespace().collect();
    // after the command: state is field 0, utime field 11, stime field 12
    let ut: f64 = f.get(11)?.parse().ok()?;
    let st: f64 = f.get(12)?.parse().ok()?;
    Some((ut + st) / 100.0)
}

const WALL_FACTOR: u64 = 10;

/// True when no thread of the process is runnable or in uninterruptible wait: together with a
/// CPU counter that stands still this is a blocked process (a self-deadlock), as opposed to one
/// that is merely not being given a core.
pub fn all_threads_sleeping(pid: u32) -> bool {
    let Ok(rd) = std::fs::read_dir(format!("/proc/{pid}/task")) else { return false };
    let mut seen = false;
    for e in rd.flatten() {
        let Ok(s) = std::fs::read_to_string(e.path().join("stat")) else { continue };
        let Some(p) = s.rfind(')') else { continue };
        match s[p + 1..].split_whitespace().next() {
            Some("S") => seen = true,
            _ => return false,
        }
    }
    seen
}

/// Progress watch for one child on one run: stalled when it has burnt more than `limit` CPU
/// seconds on it, or has been blocked (all threads asleep, CPU counter unchanged) for `limit`
/// seconds, or, as an outer bound, after WALL_FACTOR x `limit` seconds of wall-clock time.
pub struct Watch {
    since: std::time::Instant,
    cpu_at_start: f64,
    cpu_last: f64,
    cpu_last_at: std::time::Instant,
}

impl Watch {
    pub fn new(pid: u32) -> Watch {
        let c = cpu_seconds(pid).unwrap_or(0.0);
        let now = std::time::Instant::now();
        Watch { since: now, cpu_at_start: c, cpu_last: c, cpu_last_at: now }
    }
    pub fn stalled(&mut self, pid: u32, limit: u64) -> bool {
        let wall = self.since.elapsed().as_secs();
        if wall <= limit {
            return false;
        }
        let Some(c) = cpu_seconds(pid) else { return true };
        if c != self.cpu_last {
            self.cpu_last = c;
            self.cpu_last_at = std::time::Instant::now();
        }
        c - self.cpu_at_start > limit as f64 || (self.cpu_last_at.elapsed().as_secs() > limit && all_threads_sleeping(pid)) || wall > limit * WALL_FACTOR
    }
}

